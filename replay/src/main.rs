// Native replay of a solver counterexample: the same harness body, the real unstubbed code.
// usage: verif-replay <crate> <module::harness> <hex,hex,...>
//        (one hex string per kani::any() call, in order)
fn main() {
    let args: Vec<String> = std::env::args().collect();
    if args.len() == 7 && args[1] == "search" {
        // verif-replay search <crate> <harness> <seed> <iterations> <expected-substring>
        let seed: u64 = args[4].parse().expect("seed");
        let iterations: u64 = args[5].parse().expect("iterations");
        let expect_hex: String = args[6].bytes().map(|b| format!("{b:02x}")).collect();
        let request = format!("search:{seed}:{iterations}:{expect_hex}:{}", args[3]);
        let code = match args[2].as_str() {
            "pumpkin-solver" => pumpkin_solver::verif_replay_entry(&request, vec![]),
            "drcp-format" => drcp_format::verif_replay_entry(&request, vec![]),
            other => {
                eprintln!("unknown crate {other}");
                4
            }
        };
        std::process::exit(code);
    }
    if args.len() != 4 {
        eprintln!("usage: verif-replay <pumpkin-solver|drcp-format> <module::harness> <hex[,hex...]>");
        std::process::exit(4);
    }
    let values: Vec<Vec<u8>> = args[3]
        .split(',')
        .filter(|s| !s.is_empty())
        .map(|h| {
            (0..h.len())
                .step_by(2)
                .map(|i| u8::from_str_radix(&h[i..i + 2], 16).expect("hex"))
                .collect()
        })
        .collect();
    let code = match args[1].as_str() {
        "pumpkin-solver" => pumpkin_solver::verif_replay_entry(&args[2], values),
        "drcp-format" => drcp_format::verif_replay_entry(&args[2], values),
        other => {
            eprintln!("unknown crate {other}");
            4
        }
    };
    std::process::exit(code);
}
