"""Non-Kani engines (E2: MIR->SMT) and per-property metadata. The driver (bin/check) treats
every unit uniformly: a unit returns a result dict shaped like kani_run.run_kani's."""
import concurrent.futures
import hashlib
import json
import os
import threading
import time

import kani_run
import registry

ROOT = os.path.dirname(os.path.dirname(os.path.abspath(__file__)))
REPLAYS_DIR = os.path.join(ROOT, "replays")

EXTRA_PROPS = []
EXTRA_TAGS = {}
PROPERTY_META = {}

_e2_lock = threading.Lock()
_e2_state = {}

E2_SOLVER_CAP_S = 120

# SMT input name -> order in which the native replay harness draws them
E2_REPLAY = {
    ("numext", "div_floor"): ("h_e2::e2_div_floor", [("a", 4), ("b", 4)]),
    ("numext", "div_ceil"): ("h_e2::e2_div_ceil", [("a", 4), ("b", 4)]),
    ("map", None): ("h_e2::e2_view_map", [("scale", 4), ("offset", 4), ("value", 4)]),
    ("invert_lemma", "lb"): ("h_e2::e2_view_lower_bound_predicate",
                             [("scale", 4), ("offset", 4), ("value", 4), ("x", 4)]),
    ("invert_lemma", "ub"): ("h_e2::e2_view_upper_bound_predicate",
                             [("scale", 4), ("offset", 4), ("value", 4), ("x", 4)]),
    ("invert", None): ("h_e2::e2_view_lower_bound_predicate",
                       [("scale", 4), ("offset", 4), ("value", 4), ("x", 4)]),
    # C04: minimise an unconstrained variable whose smallest value is `best` (public API)
    ("lsu", None): ("h_opt::lsu_minimise_from", [("best", 4)]),
}


def register_all():
    registry.H(
        "e2::view_and_rounding_kernels", "pumpkin-solver", "e2", ["O7", "K-view", "K-round"],
        "quick",
        ["<i32 as NumExt>::{div_ceil,div_floor} (MIR)", "AffineView::{map,invert} (MIR)"],
        "a,b / scale,offset,value,x,rounding: any i32 (Int-sorted with range constraints for the "
        "rounding lemmas, 32-bit bit-vectors for the panic-freedom and exactness queries)",
        "full 32-bit width, loop-free functions (no unwinding bound); 11 SMT queries, z3 4.8.12 + "
        "cvc5 1.0 portfolio, %d s cap per solver run" % E2_SOLVER_CAP_S,
        timeout=900, mem_gb=4, full_range=True,
        stubs=["none (the MIR of the current tree is translated; Div/Rem in integer mode are "
               "fresh q,r constrained by the truncated-division lemma)"],
        only_props=["C12", "C16"])
    registry.HARNESSES["e2::view_and_rounding_kernels"]["engine"] = "e2"
    registry.H(
        "e2::lsu_strengthen_kernel", "pumpkin-solver", "e2", ["O7", "K-strengthen"], "quick",
        ["LinearSatUnsat::strengthen (MIR; the calls to PredicateConstructor::"
         "upper_bound_predicate and ConstraintSatisfactionSolver::add_clause are observed: "
         "integer arguments recorded with the path condition, results opaque)",
         "<i32 as TryFrom<i64>>::try_from (modelled by its contract: Ok(x as i32) iff x fits)"],
        "best: any i64 word that is the value of an i32 objective (assumption: best in i32)",
        "full width, loop-free function (no unwinding bound); 4 SMT queries (bit-vectors), z3 "
        "4.8.12 + cvc5 1.0 portfolio, %d s cap per solver run" % E2_SOLVER_CAP_S,
        timeout=600, mem_gb=4, full_range=True,
        stubs=["observed calls (see encodes); core's integer TryFrom by contract"],
        only_props=["C04"])
    registry.HARNESSES["e2::lsu_strengthen_kernel"]["engine"] = "e2"
    registry.HARNESSES["e2::lsu_strengthen_kernel"]["e2_builder"] = "c04"
    registry.PROPERTY_TAGS["C04"] = ["O7", "K-strengthen"]


def run_unit(h, lane):
    if h.get("engine") == "e2":
        return run_e2(h)
    raise NotImplementedError(h.get("engine"))


def _solve(query, decls, solvers=("z3", "cvc5"), race=None):
    """Portfolio. In race mode (quick tier) the first definitive answer wins and the other
    solver is cancelled; in full mode (thorough tier) every solver runs to its cap so that the
    two answers can be compared."""
    import e2
    import subprocess
    if race is None:
        race = os.environ.get("VERIF_TIER", "quick") != "thorough"
    script = query.script(decls)
    if not race:
        answers = {}
        with concurrent.futures.ThreadPoolExecutor(max_workers=len(solvers)) as ex:
            futs = {ex.submit(e2.run_solver, s, script, E2_SOLVER_CAP_S): s for s in solvers}
            for f in concurrent.futures.as_completed(futs):
                ans, dt, raw = f.result()
                answers[futs[f]] = dict(answer=ans, seconds=round(dt, 2))
        return answers
    procs = {}
    t0 = time.time()
    for s in solvers:
        cmd = ([e2.Z3, "-in", "-T:%d" % E2_SOLVER_CAP_S] if s == "z3" else
               [e2.CVC5, "--lang", "smt2", "--tlimit=%d" % (E2_SOLVER_CAP_S * 1000)])
        p = subprocess.Popen(cmd, stdin=subprocess.PIPE, stdout=subprocess.PIPE,
                             stderr=subprocess.STDOUT, text=True)
        p.stdin.write(script)
        p.stdin.close()
        procs[s] = p
    answers = {}
    while procs and time.time() - t0 < E2_SOLVER_CAP_S + 10:
        for s, p in list(procs.items()):
            if p.poll() is not None:
                raw = p.stdout.read()
                first = raw.strip().split("\n")[0].strip() if raw.strip() else ""
                ans = "error" if "(error" in raw else (
                    first if first in ("sat", "unsat", "unknown") else "timeout")
                answers[s] = dict(answer=ans, seconds=round(time.time() - t0, 2))
                del procs[s]
                if ans in ("sat", "unsat"):
                    for s2, p2 in procs.items():
                        p2.kill()
                        answers[s2] = dict(answer="cancelled", seconds=round(time.time() - t0, 2))
                    procs = {}
                    break
        time.sleep(0.05)
    for s, p in procs.items():
        p.kill()
        answers[s] = dict(answer="timeout", seconds=round(time.time() - t0, 2))
    return answers


def run_e2(h):
    import e2
    import mir2smt
    t0 = time.time()
    res = dict(crate="pumpkin-solver", harness=h["name"], cached=False, failures=[], covers=[],
               undetermined=[], n_checks=0, n_unreachable=0,
               computed_at=time.strftime("%Y-%m-%dT%H:%M:%SZ", time.gmtime()))
    try:
        text, dump_s = e2.dump_mir()
        if h.get("e2_builder") == "c04":
            import c04
            queries, notes = c04.build_queries(text)
        else:
            queries, notes = e2.build_queries(text)
    except Exception as exc:  # noqa: BLE001
        res.update(error="e2-translation", error_text=repr(exc)[:1500], verdict=None,
                   wall_s=round(time.time() - t0, 1))
        return res
    details = []
    failed = False
    inconclusive = []
    verdicts = {}
    solver_time = 0.0
    for q, decls in queries:
        answers = _solve(q, decls)
        solver_time += sum(a["seconds"] for a in answers.values())
        got = set(a["answer"] for a in answers.values())
        # vacuity witness: the assumptions alone must be satisfiable
        vac = e2.Query(q.name + "__vacuity", q.tag, "", q.inputs, q.assumptions, "true",
                       q.functions, int_mode=q.int_mode)
        vans = _solve(vac, decls)
        vac_ok = any(a["answer"] == "sat" for a in vans.values())
        if "sat" in got and "unsat" in got:
            verdict = "solver-disagreement"
        elif "sat" in got:
            verdict = "sat"
        elif "unsat" in got and "error" not in got and "unknown" not in got:
            verdict = "unsat"
        else:
            verdict = "inconclusive"
        if verdict == "unsat" and not vac_ok:
            verdict = "vacuous"
        verdicts[q.name] = verdict
        details.append(dict(query=q.name, tag=q.tag, claim=q.description, verdict=verdict,
                            solvers=answers, vacuity=vans, mode="int" if q.int_mode else "bv",
                            depends_on=q.depends_on, functions=q.functions))
        res["n_checks"] += 1
        res["covers"].append(dict(description="assumptions satisfiable: " + q.name,
                                  status="SATISFIED" if vac_ok else "UNSATISFIABLE",
                                  location="e2"))
    # lemma chaining: a query is only trusted if the queries it depends on are unsat
    for d in details:
        if d["verdict"] == "unsat" and any(verdicts.get(x) != "unsat" for x in d["depends_on"]):
            d["verdict"] = "inconclusive"
            d["note"] = "depends on a lemma that was not discharged"
    for (q, decls), d in zip(queries, details):
        if d["verdict"] == "sat":
            failed = True
            model = None
            for s in ("z3", "cvc5"):
                ans, dt, raw = e2.run_solver(s, q.script(decls, model=True), E2_SOLVER_CAP_S)
                if ans == "sat":
                    model = e2.parse_model(raw) or parse_int_model(raw)
                    if model:
                        break
            d["model"] = model
            res["failures"].append(dict(
                name="e2." + q.name, status="FAILURE",
                description="[%s] %s: %s" % (q.tag, q.name, q.description),
                location="pumpkin-solver/src (MIR) in function " + ", ".join(q.functions),
                e2=dict(model=model, replay=q.replay)))
        elif d["verdict"] != "unsat":
            inconclusive.append(d["query"] + ":" + d["verdict"])
    res["e2_queries"] = details
    res["verification_time_s"] = round(solver_time, 2)
    res["solver_time_s"] = round(solver_time, 2)
    res["mir_dump_s"] = round(dump_s, 1)
    res["wall_s"] = round(time.time() - t0, 1)
    if failed:
        # a satisfiable query is a counterexample whatever the state of the other queries
        # (queries that depend on a refuted lemma are then necessarily inconclusive)
        res["verdict"] = "FAILED"
        res["inconclusive_queries"] = inconclusive
    elif inconclusive:
        res["error"] = "e2-inconclusive"
        res["error_text"] = ", ".join(inconclusive)
        res["verdict"] = None
    else:
        res["verdict"] = "SUCCESSFUL"
    return res


def parse_int_model(raw):
    import re
    out = {}
    for m in re.finditer(r"\(\s*(\|?[\w!.]+\|?)\s+(\(- (\d+)\)|(\d+))\s*\)", raw):
        name = m.group(1).strip("|")
        out[name] = -int(m.group(3)) if m.group(3) else int(m.group(4))
    return out


def model_to_values(model, layout):
    vals = []
    for name, nbytes in layout:
        v = model.get(name, 0)
        v &= (1 << (8 * nbytes)) - 1
        vals.append(list(v.to_bytes(nbytes, "little")))
    return vals


def confirm(prop, h, relevant, tier):
    """E2: replay the SMT model natively through the real function (h_e2 harness bodies)."""
    detail = dict(attempts=[])
    os.makedirs(os.path.join(REPLAYS_DIR, prop), exist_ok=True)
    for check, cls in relevant:
        info = check.get("e2") or {}
        model, rp = info.get("model"), info.get("replay") or {}
        if not model:
            continue
        kind = rp.get("kind")
        sub = rp.get("function") if kind == "numext" else (
            rp.get("lemma", "")[:2] if kind == "invert_lemma" else None)
        target = E2_REPLAY.get((kind, sub))
        if not target:
            continue
        harness, layout = target
        values = model_to_values(model, layout)
        runs = kani_run.native_replay(harness, values)
        detail["attempts"].append(dict(check=check["description"], model=model, runs=runs))
        if any(r["result"] == "reproduced" for r in runs):
            digest = hashlib.sha256(json.dumps(values).encode()).hexdigest()[:12]
            path = os.path.join(REPLAYS_DIR, prop, "%s-%s.json" % (
                harness.replace("::", "__"), digest))
            with open(path, "w") as f:
                json.dump(dict(property=prop, engine="kani", crate="pumpkin-solver",
                               harness=harness, solver_check=check["description"],
                               values=values, smt_model=model, native_runs=runs,
                               how="bin/check --replay " + path), f, indent=1)
            return True, path, detail
    return False, None, detail


def do_replay(rec):
    print("unknown engine", rec.get("engine"))
    return 2
