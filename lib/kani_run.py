"""Run Kani harnesses against /repo's current working tree, parse CBMC's per-check results,
memoise solver verdicts by content hash, extract counterexamples and replay them natively."""
import hashlib
import json
import os
import re
import subprocess
import sys
import threading
import time

ROOT = os.path.dirname(os.path.dirname(os.path.abspath(__file__)))
REPO = os.environ.get("VERIF_REPO", "/repo")
HARNESS_DIR = os.path.join(ROOT, "harness")
TARGET_BASE = os.path.join(ROOT, ".kani-target")
CACHE_DIR = os.path.join(ROOT, ".cache", "results")
LOG_DIR = os.path.join(ROOT, ".cache", "logs")
REPLAY_TARGET = os.path.join(ROOT, ".replay-target")

CRATES = {
    # crate key -> (cargo package, harness module prefix, extra cargo-kani args, source dirs hashed)
    "pumpkin-solver": dict(
        package="pumpkin-solver",
        prefix="verif_kani::",
        args=["--lib"],
        cwd=REPO,
        sources=["pumpkin-solver/src", "pumpkin-solver/Cargo.toml", "drcp-format/src",
                 "drcp-format/Cargo.toml", "Cargo.toml", "Cargo.lock"],
        harness_sub="pumpkin_solver",
    ),
    "dimacs": dict(
        package=None,
        prefix="dimacs_gen::verif::",
        args=["--lib"],
        cwd=os.path.join(HARNESS_DIR, "dimacs_kani"),
        repo_sources=["pumpkin-solver/src", "pumpkin-solver/Cargo.toml", "drcp-format/src",
                      "Cargo.toml", "Cargo.lock"],
        harness_sub="dimacs_kani",
        harness_files=["tail.rs", "Cargo.toml", "src/lib.rs"],
    ),
    "drcp-format": dict(
        package="drcp-format",
        prefix="verif_kani::",
        args=["--lib"],
        cwd=REPO,
        sources=["drcp-format/src", "drcp-format/Cargo.toml", "Cargo.toml", "Cargo.lock"],
        harness_sub="drcp_format",
    ),
}

_hash_lock = threading.Lock()
_tree_hash_cache = {}


def _hash_paths(base, rels):
    h = hashlib.sha256()
    for rel in rels:
        p = os.path.join(base, rel)
        if os.path.isdir(p):
            for dirpath, dirnames, filenames in sorted(os.walk(p)):
                dirnames.sort()
                for fn in sorted(filenames):
                    fp = os.path.join(dirpath, fn)
                    h.update(os.path.relpath(fp, base).encode())
                    with open(fp, "rb") as f:
                        h.update(hashlib.sha256(f.read()).digest())
        elif os.path.exists(p):
            h.update(rel.encode())
            with open(p, "rb") as f:
                h.update(hashlib.sha256(f.read()).digest())
        else:
            h.update(("missing:" + rel).encode())
    return h.hexdigest()


COMMON_HARNESS_FILES = ["shadow.rs", "monitor.rs", "env.rs"]


def tree_hash(crate, harness=None, deps=()):
    """Hash of every source file a harness is compiled from: the repo sources of the crate and
    its path dependencies, the lock file, the common harness infrastructure, the harness' own
    module file and the harness modules it imports."""
    spec = CRATES[crate]
    if "harness_files" in spec:
        files = list(spec["harness_files"])
    else:
        files = list(COMMON_HARNESS_FILES) if spec["harness_sub"] == "pumpkin_solver" else []
        if harness and "::" in harness:
            files.append(harness.split("::")[0] + ".rs")
        files.append("mod.rs" if spec["harness_sub"] != "pumpkin_solver" else "native_kani.rs")
        files += [d + ".rs" for d in deps]
    key = (crate, tuple(sorted(set(files))))
    with _hash_lock:
        if ("repo", crate) not in _tree_hash_cache:
            _tree_hash_cache[("repo", crate)] = _hash_paths(
                REPO, spec.get("repo_sources", spec.get("sources")))
        if key not in _tree_hash_cache:
            b = _hash_paths(os.path.join(HARNESS_DIR, spec["harness_sub"]), sorted(set(files)))
            _tree_hash_cache[key] = hashlib.sha256(
                (_tree_hash_cache[("repo", crate)] + b).encode()).hexdigest()
        return _tree_hash_cache[key]


CHECK_RE = re.compile(
    r"^Check (\d+): ([^\n]+)\n\t - Status: (\w+)\n\t - Description: \"(.*?)\"\n\t - Location: ([^\n]*)$",
    re.M | re.S,
)


def parse_log(text):
    """Parse Kani's regular output into a result dict."""
    checks = []
    for m in CHECK_RE.finditer(text):
        num, name, status, desc, loc = m.groups()
        # assertion messages given as string literals are printed with their own quotes
        desc = desc.strip().strip('"').strip()
        checks.append(dict(name=name, status=status, description=desc, location=loc.strip()))
    res = dict(
        n_checks=len([c for c in checks if ".cover." not in c["name"]]),
        failures=[c for c in checks if c["status"] == "FAILURE"],
        undetermined=[c for c in checks if c["status"] == "UNDETERMINED"],
        covers=[dict(description=c["description"], status=c["status"], location=c["location"])
                for c in checks if ".cover." in c["name"]],
        n_unreachable=len([c for c in checks if c["status"] == "UNREACHABLE"
                           and ".cover." not in c["name"]]),
    )
    m = re.search(r"VERIFICATION:- (\w+)", text)
    res["verdict"] = m.group(1) if m else None
    m = re.search(r"Verification Time: ([0-9.]+)s", text)
    res["verification_time_s"] = float(m.group(1)) if m else None
    m = re.findall(r"(\d+) variables, (\d+) clauses", text)
    if m:
        res["sat_variables"] = max(int(a) for a, _ in m)
        res["sat_clauses"] = max(int(b) for _, b in m)
    m = re.findall(r"Runtime Solver: ([0-9.e+-]+)s", text)
    res["solver_time_s"] = round(sum(float(x) for x in m), 3) if m else None
    m = re.findall(r"Runtime Symex: ([0-9.e+-]+)s", text)
    res["symex_time_s"] = round(sum(float(x) for x in m), 3) if m else None
    res["stubs_applied"] = "-Z stubbing" in text or True
    if re.search(r"CBMC failed|Status: ERROR|out of memory|std::bad_alloc|Killed", text):
        res["error"] = "cbmc-error"
    if re.search(r"^error(\[E\d+\])?:", text, re.M) and res["verdict"] is None:
        res["error"] = "compile-error"
        res["error_text"] = "\n".join(
            l for l in text.splitlines() if l.startswith("error"))[:2000]
    return res


def _lane_dir(lane):
    return os.path.join(TARGET_BASE, "lane%d" % lane)


def kani_command(crate, harness, playback=False, extra=None):
    spec = CRATES[crate]
    # Checks that are switched off (they are CBMC-level checks, not Rust semantics): pointer /
    # memory-safety checks (the code under test is safe Rust; the only unsafe code is the
    # harness' own static store), CBMC's C-level arithmetic checks (Rust's overflow /
    # division-by-zero panics are MIR assertions and stay on), and Kani's per-assertion
    # reachability covers (one extra SAT call each; vacuity is guarded by explicit
    # `kani::cover!` points instead). Unwinding assertions stay on.
    cmd = ["cargo", "kani"] + (["-p", spec["package"]] if spec["package"] else []) + spec["args"] + [
        "-Z", "stubbing", "-Z", "unstable-options", "--no-memory-safety-checks",
        "--no-overflow-checks", "--no-assertion-reach-checks",
        "--harness", spec["prefix"] + harness, "--exact"]
    if playback:
        cmd += ["-Z", "concrete-playback", "--concrete-playback=print"]
    if extra:
        cmd += extra
    return cmd


def run_kani(crate, harness, lane, timeout_s, mem_gb=24, playback=False, use_cache=True,
             deps=()):
    """Run one harness. Returns result dict with keys verdict/failures/covers/... plus
    cached(bool), wall_s, log."""
    os.makedirs(CACHE_DIR, exist_ok=True)
    os.makedirs(LOG_DIR, exist_ok=True)
    key = hashlib.sha256(json.dumps(
        [crate, harness, tree_hash(crate, harness, deps), playback, "kani-0.68.0", "flags-v2", "parser-v2"]).encode()).hexdigest()
    cache_file = os.path.join(CACHE_DIR, key + ".json")
    if use_cache and os.path.exists(cache_file) and os.environ.get("VERIF_NO_CACHE") != "1":
        try:
            with open(cache_file) as f:
                res = json.load(f)
            res["cached"] = True
            return res
        except Exception:
            pass
    spec = CRATES[crate]
    if crate == "dimacs":
        import gen_dimacs
        gen_dimacs.generate()
    log_path = os.path.join(LOG_DIR, "%s%s.log" % (harness.replace("::", "__"),
                                                    ".playback" if playback else ""))
    env = dict(os.environ)
    env["PUMPKIN_VERIF_HARNESS"] = HARNESS_DIR
    env["CARGO_NET_OFFLINE"] = "true"
    env.pop("RUSTFLAGS", None)
    cmd = kani_command(crate, harness, playback) + ["--target-dir", _lane_dir(lane)]
    shell = "ulimit -v %d; exec timeout -k 10 %d %s" % (
        int(max(mem_gb * 2.5, 24) * 1024 * 1024), int(timeout_s), " ".join(cmd))
    t0 = time.time()
    with open(log_path, "w") as log:
        proc = subprocess.run(["bash", "-c", shell], cwd=spec["cwd"], env=env,
                              stdout=log, stderr=subprocess.STDOUT)
    wall = time.time() - t0
    with open(log_path, errors="replace") as f:
        text = f.read()
    res = parse_log(text)
    res.update(crate=crate, harness=harness, wall_s=round(wall, 1), log=log_path,
               exit_code=proc.returncode, cached=False, tree_hash=tree_hash(crate, harness, deps),
               computed_at=time.strftime("%Y-%m-%dT%H:%M:%SZ", time.gmtime()),
               command=" ".join(cmd))
    if proc.returncode in (124, 137) and res.get("verdict") is None:
        res["error"] = "timeout"
    elif res.get("verdict") is None and "error" not in res:
        res["error"] = "no-verdict"
    if playback:
        res["playback"] = parse_playback(text)
    # Only definite verdicts are memoised; errors and timeouts are always re-run.
    if "error" not in res and res.get("verdict") in ("SUCCESSFUL", "FAILED"):
        tmp = cache_file + ".tmp%d" % os.getpid()
        with open(tmp, "w") as f:
            json.dump(res, f)
        os.replace(tmp, cache_file)
    return res


PLAYBACK_RE = re.compile(
    r"/// Check for `(\w+)`: \"(.*?)\"\n.*?let concrete_vals: Vec<Vec<u8>> = vec!\[(.*?)\n    \];",
    re.S,
)


def parse_playback(text):
    """Extract (kind, description, [bytes...]) triples from Kani's concrete-playback tests."""
    out = []
    for kind, desc, body in PLAYBACK_RE.findall(text):
        vals = []
        for m in re.finditer(r"vec!\[([0-9, ]*)\]", body):
            nums = [int(x) for x in m.group(1).replace(" ", "").split(",") if x != ""]
            vals.append(nums)
        out.append(dict(kind=kind, description=desc, values=vals))
    return out


# -------------------------------------------------------------------------------------------------
# native replay
# -------------------------------------------------------------------------------------------------
_replay_lock = threading.Lock()
_replay_built = {}


def build_replay(profile, crate="pumpkin-solver"):
    """Build the native replay binary (path dependency on /repo) with --cfg pumpkin_verif."""
    which = "dimacs" if crate == "dimacs" else "main"
    with _replay_lock:
        if (profile, which) in _replay_built:
            return _replay_built[(profile, which)]
        env = dict(os.environ)
        env["PUMPKIN_VERIF_HARNESS"] = HARNESS_DIR
        env["RUSTFLAGS"] = "--cfg pumpkin_verif"
        env["CARGO_NET_OFFLINE"] = "true"
        if which == "dimacs":
            import gen_dimacs
            gen_dimacs.generate()
            cwd = os.path.join(HARNESS_DIR, "dimacs_kani")
            target = os.path.join(REPLAY_TARGET, "dimacs")
            name = "dimacs-replay"
        else:
            cwd = os.path.join(ROOT, "replay")
            target = REPLAY_TARGET
            name = "verif-replay"
        cmd = ["cargo", "build", "--offline", "--target-dir", target]
        if profile == "release":
            cmd.append("--release")
        p = subprocess.run(cmd, cwd=cwd, env=env, stdout=subprocess.PIPE,
                           stderr=subprocess.STDOUT, text=True)
        binary = os.path.join(target, "release" if profile == "release" else "debug", name)
        ok = p.returncode == 0 and os.path.exists(binary)
        _replay_built[(profile, which)] = (binary if ok else None, p.stdout[-3000:])
        return _replay_built[(profile, which)]


def native_replay(harness, values, profiles=("dev", "release"), timeout_s=120,
                  crate="pumpkin-solver"):
    """Run the harness body natively on the real unstubbed code with the concrete values.
    Returns list of dicts (profile, exit_code, result, panic)."""
    hexes = ",".join("".join("%02x" % b for b in v) for v in values)
    out = []
    for profile in profiles:
        binary, build_log = build_replay(profile, crate)
        if binary is None:
            out.append(dict(profile=profile, result="build-failed", log=build_log))
            continue
        try:
            argv = [binary, harness, hexes] if crate == "dimacs" else [binary, crate, harness,
                                                                       hexes]
            p = subprocess.run(argv, stdout=subprocess.PIPE,
                               stderr=subprocess.STDOUT, text=True, timeout=timeout_s)
            text = p.stdout
            code = p.returncode
        except subprocess.TimeoutExpired:
            text, code = "", -1
        m = re.search(r"REPLAY-RESULT (\S+)", text)
        pm = re.search(r"REPLAY-PANIC location=(\S*) message=(.*)", text)
        out.append(dict(profile=profile, exit_code=code,
                        result=m.group(1) if m else ("timeout" if code == -1 else "crashed"),
                        panic=dict(location=pm.group(1), message=pm.group(2)) if pm else None,
                        output=text[-1500:]))
    return out


def native_witness_search(crate, harness, seed, iterations, expect, timeout_s=900,
                          profile="dev"):
    """Run the harness natively on boundary-biased random inputs until a failure whose message
    contains `expect` shows up. Returns dict(values=[[bytes]] or None, ...)."""
    if crate == "dimacs":
        return dict(values=None, note="no witness search for the dimacs crate")
    binary, build_log = build_replay(profile, crate)
    if binary is None:
        return dict(values=None, note="replay build failed", log=build_log)
    try:
        p = subprocess.run([binary, "search", crate, harness, str(seed), str(iterations), expect],
                           stdout=subprocess.PIPE, stderr=subprocess.STDOUT, text=True,
                           timeout=timeout_s)
        text = p.stdout
    except subprocess.TimeoutExpired:
        return dict(values=None, note="timeout")
    m = re.search(r"SEARCH-FOUND iterations=(\d+) message=(.*) values=(\S*)", text)
    if not m:
        return dict(values=None, note=text[-300:])
    values = [list(bytes.fromhex(hx)) for hx in m.group(3).split(",") if hx]
    return dict(values=values, iterations=int(m.group(1)), message=m.group(2))
