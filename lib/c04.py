"""E2 queries for C04: the bound-strengthening step of the linear SAT-UNSAT optimiser.

`LinearSatUnsat::strengthen(objective, best, solver)` is loop-free integer code around two calls
(`upper_bound_predicate`, `add_clause`). Its MIR is executed symbolically with `best` as a 64-bit
symbolic word; the two calls are *observed* (their integer arguments are recorded with the path
condition, their results are opaque). The property of one strengthening step: after a solution
of objective value `best` (an i32, because it is the value of an i32 variable or view) the
posted clause is exactly `objective <= best - 1`, and the only case in which nothing is posted
and "cannot improve" is returned is `best = i32::MIN` - where no smaller value exists.
"""
import e2
import mir2smt
from mir2smt import Translator, Value, find_function, bv_const, smt_and, smt_or

FN = r"linear_sat_unsat::<impl.*>::strengthen$"
FNAMES = ["LinearSatUnsat::strengthen (pumpkin-solver/src/optimisation/linear_sat_unsat.rs)"]
I32_MIN64 = bv_const(-(1 << 31), 64)


def build_queries(mir_text):
    funcs = mir2smt.parse_functions(mir_text)
    fn = find_function(funcs, FN)
    if len(fn.args) != 4 or fn.args[2][1].strip() != "i64":
        raise mir2smt.Unsupported("strengthen: unexpected signature %r" % (fn.args,))
    t = Translator(funcs, observe={r"upper_bound_predicate$": "post_ub",
                                   r"ConstraintSatisfactionSolver::add_clause": "add_clause"})
    best = Value("int", "best", 64, True)
    s = t.execute(fn, [Value("opaque", "self"), Value("opaque", "objective"), best,
                       Value("opaque", "solver")])
    if s.unsupported:
        raise mir2smt.Unsupported("strengthen: %s" % (s.unsupported[:2],))
    posts = [(pc, args) for pc, name, args in s.observed if name == "post_ub"]
    adds = [pc for pc, name, _ in s.observed if name == "add_clause"]
    if not posts or not adds:
        raise mir2smt.Unsupported("strengthen: no observed bound predicate / add_clause call")
    for pc, args in posts:
        if len(args) != 2 or args[1] is None or args[1].kind != "int" or args[1].width != 32:
            raise mir2smt.Unsupported("strengthen: bound argument is not a translatable i32")
    posted = smt_or([smt_and([pc, ]) for pc, _ in posts])
    added = smt_or(adds)
    wrong_bound = smt_or([
        smt_and([pc, "(not (= %s (bvsub best %s)))" % (e2.sext(args[1].smt, 32, 64),
                                                       bv_const(1, 64))])
        for pc, args in posts])
    # a path that returns without having posted the bound through add_clause
    silent = smt_or([smt_and([pc, "(not %s)" % smt_and([posted, added])])
                     for pc, _ in s.returns])
    pre = [e2.in_i32("best")]
    replay = dict(kind="lsu", function=None)
    queries = [
        (e2.Query("lsu_strengthen_no_panic", "O7",
                  "strengthen(best) does not panic for any objective value best in i32",
                  [("best", 64)], pre, t.panic_term(s), FNAMES, replay=replay), t.decls),
        (e2.Query("lsu_strengthen_posts_best_minus_one", "K-strengthen",
                  "whenever strengthen(best) posts a bound it is exactly objective <= best - 1 "
                  "(no wrap-around in the narrowing to i32)",
                  [("best", 64)], pre, wrong_bound, FNAMES, replay=replay), t.decls),
        (e2.Query("lsu_strengthen_silent_only_at_i32_min", "K-strengthen",
                  "strengthen(best) returns without posting the bound via add_clause only when "
                  "best = i32::MIN (no smaller value exists)",
                  [("best", 64)], pre + ["(not (= best %s))" % I32_MIN64], silent, FNAMES,
                  replay=replay), t.decls),
        # reachability witness: the posting path is taken for some admitted input
        (e2.Query("lsu_strengthen_posting_path_unreachable", "K-strengthen",
                  "vacuity guard (must be unsat): no admitted best reaches the posting path",
                  [("best", 64)], pre + ["(= best best)"],
                  "(not (exists ((b (_ BitVec 64))) %s))" % smt_and(
                      [e2.in_i32("b"), posted.replace("best", "b")]),
                  FNAMES), t.decls),
    ]
    notes = ["observed calls: %d bound predicate(s), %d add_clause; %d return path(s), %d panic "
             "site(s)" % (len(posts), len(adds), len(s.returns), len(s.panics))]
    return queries, notes
