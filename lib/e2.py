"""E2 queries: properties of the arithmetic leaf functions, decided on their MIR by z3 / cvc5."""
import os
import re
import subprocess
import time

import mir2smt
from mir2smt import Translator, Value, bv_const, smt_and, smt_or, find_function

ROOT = os.path.dirname(os.path.dirname(os.path.abspath(__file__)))
REPO = os.environ.get("VERIF_REPO", "/repo")
MIR_DIR = os.path.join(ROOT, ".mir")

Z3 = "/usr/bin/z3"
CVC5 = "cvc5"


def dump_mir():
    """Regenerate the MIR dump of the pumpkin-solver lib from the current working tree."""
    os.makedirs(MIR_DIR, exist_ok=True)
    out = os.path.join(MIR_DIR, "pumpkin_solver.mir")
    env = dict(os.environ)
    env["CARGO_NET_OFFLINE"] = "true"
    env.pop("RUSTFLAGS", None)
    # make sure rustc really re-runs (an up-to-date crate prints nothing)
    lib = os.path.join(REPO, "pumpkin-solver", "src", "lib.rs")
    st = os.stat(lib)
    t0 = time.time()
    stamp = os.path.join(MIR_DIR, "stamp")
    try:
        os.utime(lib, None)
        cmd = ["cargo", "+nightly", "rustc", "--offline", "-p", "pumpkin-solver", "--lib",
               "--target-dir", os.path.join(MIR_DIR, "target"), "--",
               "-Zunpretty=mir", "-C", "debug-assertions=off", "-C", "overflow-checks=on"]
        with open(out, "w") as f, open(os.path.join(MIR_DIR, "err.log"), "w") as e:
            p = subprocess.run(cmd, cwd=REPO, env=env, stdout=f, stderr=e)
    finally:
        os.utime(lib, (st.st_atime, st.st_mtime))
    text = open(out).read()
    if p.returncode != 0 or len(text) < 1000:
        raise RuntimeError("MIR dump failed, see %s" % os.path.join(MIR_DIR, "err.log"))
    return text, time.time() - t0


def sext(term, frm, to):
    return "((_ sign_extend %d) %s)" % (to - frm, term)


I32_MIN = bv_const(-(1 << 31), 32)
I32_MAX = bv_const((1 << 31) - 1, 32)


def in_i32(term64):
    return "(and (bvsge %s %s) (bvsle %s %s))" % (
        term64, bv_const(-(1 << 31), 64), term64, bv_const((1 << 31) - 1, 64))


def run_solver(solver, script, timeout_s):
    """-> (answer, seconds, raw). answer in {unsat, sat, unknown, timeout, error}."""
    t0 = time.time()
    if solver == "z3":
        cmd = [Z3, "-in", "-T:%d" % timeout_s]
    elif solver == "cvc5":
        cmd = [CVC5, "--lang", "smt2", "--tlimit=%d" % (timeout_s * 1000), "--produce-models"]
    elif solver == "cvc5-int":
        cmd = [CVC5, "--lang", "smt2", "--tlimit=%d" % (timeout_s * 1000), "--produce-models",
               "--solve-bv-as-int=sum"]
    else:
        raise ValueError(solver)
    try:
        p = subprocess.run(cmd, input=script, stdout=subprocess.PIPE, stderr=subprocess.STDOUT,
                           text=True, timeout=timeout_s + 10)
        raw = p.stdout
    except subprocess.TimeoutExpired:
        return "timeout", time.time() - t0, ""
    dt = time.time() - t0
    if "(error" in raw:
        return "error", dt, raw
    first = raw.strip().split("\n")[0].strip() if raw.strip() else ""
    if first in ("unsat", "sat", "unknown"):
        return first, dt, raw
    if "timeout" in raw or "interrupted" in raw:
        return "timeout", dt, raw
    return "unknown", dt, raw


def parse_model(raw):
    """Extract bit-vector constants from a (get-value ...) answer: {name: int (unsigned)}."""
    out = {}
    for m in re.finditer(r"\(\s*(\|?[\w!.]+\|?)\s+#([xb])([0-9a-fA-F]+)\s*\)", raw):
        name, base, digits = m.groups()
        out[name.strip("|")] = int(digits, 16 if base == "x" else 2)
    for m in re.finditer(r"\(\s*(\|?[\w!.]+\|?)\s+\(_ bv(\d+) (\d+)\)\s*\)", raw):
        out[m.group(1).strip("|")] = int(m.group(2))
    return out


def signed(value, width):
    return value - (1 << width) if value >= (1 << (width - 1)) else value


class Query:
    """negated property `claim` over declared inputs; unsat = the property holds."""

    def __init__(self, name, tag, description, inputs, assumptions, negated_claim, functions,
                 replay=None, int_mode=False, depends_on=None):
        self.int_mode = int_mode
        # queries whose `unsat` this query relies on (their claims are added as lemmas)
        self.depends_on = depends_on or []
        self.name, self.tag, self.description = name, tag, description
        self.inputs = inputs            # [(smt name, width)]
        self.assumptions = assumptions  # [smt Bool]
        self.negated_claim = negated_claim
        self.functions = functions
        self.replay = replay            # dict(kind=..., ...) for the native replay

    def script(self, extra_decls, model=False):
        lines = ["(set-logic ALL)"]
        for n, w in self.inputs:
            if self.int_mode:
                lines.append("(declare-const %s Int)" % n)
                lines.append("(assert (and (>= %s (- %d)) (<= %s %d)))" % (
                    n, 1 << (w - 1), n, (1 << (w - 1)) - 1))
            else:
                lines.append("(declare-const %s (_ BitVec %d))" % (n, w))
        lines += extra_decls
        for a in self.assumptions:
            lines.append("(assert %s)" % a)
        lines.append("(assert %s)" % self.negated_claim)
        lines.append("(check-sat)")
        if model:
            lines.append("(get-value (%s))" % " ".join(n for n, _ in self.inputs))
        return "\n".join(lines) + "\n"


def build_queries(mir_text):
    """Translate the leaf functions from the dump and build the property queries.
    Returns (queries, translator decls, notes)."""
    funcs = mir2smt.parse_functions(mir_text)
    queries = []
    notes = []

    def tr(mode="bv"):
        return Translator(funcs, mode=mode, inline={
            r"NumExt>::div_floor": r"num_ext::<impl.*>::div_floor$",
            r"NumExt>::div_ceil": r"num_ext::<impl.*>::div_ceil$",
        })

    a = Value("int", "a", 32, True)
    b = Value("int", "b", 32, True)
    A, B = sext("a", 32, 64), sext("b", 32, 64)
    div_pre = ["(not (= b %s))" % bv_const(0, 32),
               "(not (and (= a %s) (= b %s)))" % (I32_MIN, bv_const(-1, 32))]

    for fname, up in (("div_floor", False), ("div_ceil", True)):
        t = tr()
        fn = find_function(funcs, r"num_ext::<impl.*>::%s$" % fname)
        s = t.execute(fn, [a, b])
        if s.unsupported:
            raise mir2smt.Unsupported("%s: %s" % (fname, s.unsupported[:2]))
        q = t.return_term(s, 32)
        Q = sext("q!", 32, 64)
        prod = "(bvmul %s %s)" % (Q, B)
        if not up:   # floor: b>0: q*b <= a < q*b+b ; b<0: q*b >= a > q*b+b
            spec = ("(ite (bvsgt b %s) (and (bvsle %s %s) (bvslt %s (bvadd %s %s)))"
                    " (and (bvsge %s %s) (bvsgt %s (bvadd %s %s))))") % (
                bv_const(0, 32), prod, A, A, prod, B, prod, A, A, prod, B)
        else:        # ceil: b>0: q*b-b < a <= q*b ; b<0: q*b-b > a >= q*b
            spec = ("(ite (bvsgt b %s) (and (bvslt (bvsub %s %s) %s) (bvsle %s %s))"
                    " (and (bvsgt (bvsub %s %s) %s) (bvsge %s %s)))") % (
                bv_const(0, 32), prod, B, A, A, prod, prod, B, A, A, prod)
        fnames = ["<i32 as NumExt>::%s (pumpkin-solver/src/math/num_ext.rs)" % fname]
        queries.append((Query(
            "num_ext_%s_no_panic" % fname, "O7",
            "%s(a,b) does not panic whenever b != 0 and not (a = i32::MIN and b = -1)" % fname,
            [("a", 32), ("b", 32)], div_pre, t.panic_term(s), fnames,
            replay=dict(kind="numext", function=fname)), t.decls))
        # rounding direction, in integer mode (products of two symbolic words)
        ti = tr("int")
        ai, bi = Value("int", "a", 32, True), Value("int", "b", 32, True)
        si = ti.execute(fn, [ai, bi])
        if si.unsupported:
            raise mir2smt.Unsupported("%s(int): %s" % (fname, si.unsupported[:2]))
        qi = ti.return_term(si, 32)
        if not up:
            spec = ("(ite (> b 0) (and (<= (* q! b) a) (< a (+ (* q! b) b)))"
                    " (and (>= (* q! b) a) (> a (+ (* q! b) b))))")
        else:
            spec = ("(ite (> b 0) (and (< (- (* q! b) b) a) (<= a (* q! b)))"
                    " (and (> (- (* q! b) b) a) (>= a (* q! b))))")
        queries.append((Query(
            "num_ext_%s_rounds_correctly" % fname, "K-round",
            "%s(a,b) is the %s of the rational a/b (all sign combinations, full i32)" % (
                fname, "ceiling" if up else "floor"),
            [("a", 32), ("b", 32)],
            ["(not (= b 0))", "(not (and (= a (- 2147483648)) (= b (- 1))))",
             "(= q! %s)" % qi] + ti.side,
            "(not %s)" % spec, fnames,
            replay=dict(kind="numext", function=fname), int_mode=True),
            ti.decls + ["(declare-const q! Int)"]))

    # AffineView::map / invert
    scale = Value("int", "scale", 32, True)
    offset = Value("int", "offset", 32, True)
    value = Value("int", "value", 32, True)
    S, O, V = sext("scale", 32, 64), sext("offset", 32, 64), sext("value", 32, 64)
    self_fields = {"f1": scale, "f2": offset}
    t = tr()
    fn = find_function(funcs, r"affine_view::<impl.*>::map$")
    s = t.execute(fn, [self_fields, value])
    if s.unsupported:
        raise mir2smt.Unsupported("map: %s" % s.unsupported[:2])
    math = "(bvadd (bvmul %s %s) %s)" % (S, V, O)
    fnames = ["AffineView::map (pumpkin-solver/src/engine/variables/affine_view.rs)"]
    queries.append((Query(
        "affine_map_no_panic_when_image_fits", "O7",
        "map(value) does not panic when scale*value and scale*value+offset fit in i32",
        [("scale", 32), ("offset", 32), ("value", 32)],
        [in_i32(math), in_i32("(bvmul %s %s)" % (S, V))], t.panic_term(s), fnames,
        replay=dict(kind="map")), t.decls))
    queries.append((Query(
        "affine_map_exact", "K-view",
        "whenever map(value) returns, it returns scale*value+offset computed in Z",
        [("scale", 32), ("offset", 32), ("value", 32)],
        ["(not %s)" % t.panic_term(s)],
        "(not (= %s %s))" % (sext(t.return_term(s, 32), 32, 64), math), fnames,
        replay=dict(kind="map")), t.decls))

    rounding = Value("int", "rounding", 64, True)
    t = tr()
    fn = find_function(funcs, r"affine_view::<impl.*>::invert$")
    s = t.execute(fn, [self_fields, value, rounding])
    if s.unsupported:
        raise mir2smt.Unsupported("invert: %s" % s.unsupported[:2])
    inv = t.return_term(s, 32)
    D = "(bvsub %s %s)" % (V, O)
    inv_pre = ["(not (= scale %s))" % bv_const(0, 32), in_i32(D),
               "(not (and (= %s %s) (= scale %s)))" % (D, bv_const(-(1 << 31), 64),
                                                      bv_const(-1, 32)),
               "(or (= rounding %s) (= rounding %s))" % (bv_const(0, 64), bv_const(1, 64))]
    fnames = ["AffineView::invert", "<i32 as NumExt>::{div_ceil,div_floor}"]
    queries.append((Query(
        "affine_invert_no_panic", "O7",
        "invert(value, rounding) does not panic when scale != 0, value-offset fits in i32 and "
        "is not i32::MIN / -1",
        [("scale", 32), ("offset", 32), ("value", 32), ("rounding", 64)],
        inv_pre, t.panic_term(s), fnames, replay=dict(kind="invert")), t.decls))
    # The four rounding lemmas that make `set_lower_bound` / `set_upper_bound` /
    # `{lower,upper}_bound_predicate` of a view exact: for every inner value x,
    #   scale > 0:  scale*x+offset >= value  <=>  x >= invert(value, Up)
    #   scale < 0:  scale*x+offset >= value  <=>  x <= invert(value, Down)
    #   scale > 0:  scale*x+offset <= value  <=>  x <= invert(value, Down)
    #   scale < 0:  scale*x+offset <= value  <=>  x >= invert(value, Up)
    ti = tr("int")
    si = ti.execute(fn, [{"f1": Value("int", "scale", 32, True),
                          "f2": Value("int", "offset", 32, True)},
                         Value("int", "value", 32, True), Value("int", "rounding", 64, True)])
    if si.unsupported:
        raise mir2smt.Unsupported("invert(int): %s" % si.unsupported[:2])
    inv_i = ti.return_term(si, 32)
    pre_i = ["(not (= scale 0))",
             "(and (>= (- value offset) (- 2147483648)) (<= (- value offset) 2147483647))",
             "(not (and (= (- value offset) (- 2147483648)) (= scale (- 1))))"]
    img = "(+ (* scale x) offset)"
    lemmas = [
        ("lb_pos", "(> scale 0)", 0, "(= (>= %s value) (>= x inv!))" % img),
        ("lb_neg", "(< scale 0)", 1, "(= (>= %s value) (<= x inv!))" % img),
        ("ub_pos", "(> scale 0)", 1, "(= (<= %s value) (<= x inv!))" % img),
        ("ub_neg", "(< scale 0)", 0, "(= (<= %s value) (>= x inv!))" % img),
    ]
    D = "(- value offset)"
    floor_fact = ("(ite (> scale 0) (and (<= (* inv! scale) %s) (< %s (+ (* inv! scale) scale)))"
                  " (and (>= (* inv! scale) %s) (> %s (+ (* inv! scale) scale))))") % (D, D, D, D)
    ceil_fact = ("(ite (> scale 0) (and (< (- (* inv! scale) scale) %s) (<= %s (* inv! scale)))"
                 " (and (> (- (* inv! scale) scale) %s) (>= %s (* inv! scale))))") % (D, D, D, D)
    for lname, sign, rnd, claim in lemmas:
        # the rounding characterisation of inv! is proved by num_ext_div_*_rounds_correctly for
        # the very function body that is inlined here; it is added as a lemma to spare the
        # solver the non-linear step (the result is only trusted if that query is unsat too)
        fact = ceil_fact if rnd == 0 else floor_fact
        dep = "num_ext_div_ceil_rounds_correctly" if rnd == 0 else \
            "num_ext_div_floor_rounds_correctly"
        queries.append((Query(
            "affine_invert_rounding_" + lname, "K-view",
            "view bound rounding (%s): the inner bound computed by invert removes exactly the "
            "inner values whose image violates the view bound (full i32, symbolic scale/offset)"
            % lname,
            [("scale", 32), ("offset", 32), ("value", 32), ("x", 32)],
            pre_i + [sign, "(= rounding %d)" % rnd, "(not %s)" % ti.panic_term(si),
                     "(= inv! %s)" % inv_i, fact] + ti.side,
            "(not %s)" % claim, fnames,
            replay=dict(kind="invert_lemma", lemma=lname, rounding=rnd), int_mode=True,
            depends_on=[dep]),
            ti.decls + ["(declare-const rounding Int)", "(declare-const inv! Int)"]))
    return queries, notes
