"""E2: translate loop-free integer leaf functions from rustc's MIR dump to SMT-LIB2 (bit-vectors).

The dump is regenerated from /repo's current working tree on every run:
  cargo +nightly rustc -p pumpkin-solver --lib -- -Zunpretty=mir -C overflow-checks=on
Every `assert(...)` terminator of the MIR (overflow, division by zero, ...) becomes part of the
function's *panic condition*; the return value becomes a nested ite over the path conditions.

Supported: integer / bool locals, (int, bool) tuples of the *WithOverflow operations, field reads
through a reference argument (`(*_1).k`), switchInt, goto, assert, return, unreachable, calls to
other translated functions (inlined). Anything else ends the path as `unsupported`, which is
reported and makes the query inconclusive (never a pass).
"""
import re

INT_TYPES = {"i8": 8, "i16": 16, "i32": 32, "i64": 64, "isize": 64, "u8": 8, "u16": 16,
             "u32": 32, "u64": 64, "usize": 64, "i128": 128, "u128": 128}
SIGNED = {"i8", "i16", "i32", "i64", "isize", "i128"}


class Unsupported(Exception):
    pass


class Function:
    def __init__(self, name, header, body):
        self.name = name
        self.header = header
        self.args = []      # [(local, type)]
        self.ret = None
        self.locals = {}    # local -> type string
        self.blocks = {}    # label -> (stmts, terminator)
        self._parse(header, body)

    def _parse(self, header, body):
        m = re.match(r"fn (.*?)\((.*)\) -> (.*?) \{$", header)
        if not m:
            m = re.match(r"fn (.*?)\((.*)\) \{$", header)
            if not m:
                raise Unsupported("header: " + header)
            args, ret = m.group(2), "()"
        else:
            args, ret = m.group(2), m.group(3)
        self.ret = ret.strip()
        for a in split_top(args):
            a = a.strip()
            if not a:
                continue
            am = re.match(r"(_\d+): (.*)$", a)
            if not am:
                raise Unsupported("arg: " + a)
            self.args.append((am.group(1), am.group(2)))
            self.locals[am.group(1)] = am.group(2)
        cur = None
        for line in body:
            s = line.strip()
            lm = re.match(r"let (?:mut )?(_\d+): (.*);$", s)
            if lm and cur is None:
                self.locals[lm.group(1)] = lm.group(2)
                continue
            bm = re.match(r"(bb\d+)(?: \(cleanup\))?: \{$", s)
            if bm:
                cur = bm.group(1)
                self.blocks[cur] = []
                continue
            if s == "}" and cur is not None:
                cur = None
                continue
            if cur is not None and s and not s.startswith("//"):
                self.blocks[cur].append(s)


def split_top(s, sep=","):
    out, depth, cur = [], 0, ""
    for ch in s:
        if ch in "([<{":
            depth += 1
        elif ch in ")]>}":
            depth -= 1
        if ch == sep and depth == 0:
            out.append(cur)
            cur = ""
        else:
            cur += ch
    if cur.strip():
        out.append(cur)
    return out


def parse_functions(text):
    """-> {full name: Function} for every top-level fn in the dump."""
    funcs = {}
    lines = text.split("\n")
    i = 0
    while i < len(lines):
        line = lines[i]
        if line.startswith("fn ") and line.rstrip().endswith("{"):
            j = i + 1
            while j < len(lines) and lines[j] != "}":
                j += 1
            header = line.rstrip()
            m = re.match(r"fn (.*?)\(", header)
            name = m.group(1)
            try:
                funcs.setdefault(name, []).append((header, lines[i + 1:j]))
            except Exception:
                pass
            i = j
        i += 1
    return funcs


def find_function(funcs, pattern):
    """Unique function whose name matches the regex `pattern`."""
    hits = [(n, hb) for n, lst in funcs.items() if re.search(pattern, n) for hb in lst]
    if len(hits) != 1:
        raise Unsupported("function pattern %r matches %d functions: %s" % (
            pattern, len(hits), [h[0] for h in hits][:5]))
    name, (header, body) = hits[0]
    return Function(name, header, body)


# ---------------------------------------------------------------------------------------------
# SMT helpers
# ---------------------------------------------------------------------------------------------
def bv_const(value, width):
    return "(_ bv%d %d)" % (value % (1 << width), width)


def smt_and(parts):
    parts = [p for p in parts if p != "true"]
    if not parts:
        return "true"
    if len(parts) == 1:
        return parts[0]
    return "(and %s)" % " ".join(parts)


def smt_or(parts):
    parts = [p for p in parts if p != "false"]
    if not parts:
        return "false"
    if len(parts) == 1:
        return parts[0]
    return "(or %s)" % " ".join(parts)


class Value:
    """kind: 'int' (smt bv, width, signed), 'bool' (smt Bool), 'tuple' (Value, Value)."""

    def __init__(self, kind, smt=None, width=None, signed=True, items=None):
        self.kind, self.smt, self.width, self.signed, self.items = kind, smt, width, signed, items


def ty_width(ty):
    ty = ty.strip()
    if ty in INT_TYPES:
        return INT_TYPES[ty], ty in SIGNED
    return None


class Summary:
    def __init__(self):
        self.returns = []      # (path condition, Value)
        self.panics = []       # (path condition, message)
        self.unsupported = []  # (path condition, what)
        self.observed = []     # (path condition, observation name, [Value or None per argument])
        self.paths = 0


class Translator:
    def __init__(self, funcs, inline=None, consts=None, mode="bv", observe=None):
        # mode "bv": machine words as bit-vectors (exact wrap semantics everywhere).
        # mode "int": mathematical integers; the *WithOverflow* flags are range predicates and
        # the wrapped result is `exact mod 2^w`; Div/Rem are fresh q, r constrained by the
        # truncated-division lemma (side constraints in self.side). Used for the
        # multiplication / division kernels that stall bit-blasting.
        self.mode = mode
        self.side = []
        self.funcs = funcs
        self.inline = inline or {}   # callee regex in call text -> function pattern
        # callee regex -> observation name: the call is not entered; its translatable arguments
        # are recorded with the path condition and its result is an opaque value (any use of it
        # other than returning it ends the path as unsupported)
        self.observe = observe or {}
        self.consts = consts or {}   # named constant -> int
        self.fresh = 0
        self.decls = []

    def fresh_var(self, prefix, sort):
        self.fresh += 1
        name = "%s!%d" % (prefix, self.fresh)
        self.decls.append("(declare-const |%s| %s)" % (name, sort))
        return "|%s|" % name

    def lit(self, value, width):
        if self.mode == "int":
            return str(value) if value >= 0 else "(- %d)" % (-value)
        return bv_const(value, width)

    @staticmethod
    def int_range(width, signed):
        if signed:
            return -(1 << (width - 1)), (1 << (width - 1)) - 1
        return 0, (1 << width) - 1

    def int_lit(self, v):
        return str(v) if v >= 0 else "(- %d)" % (-v)

    def wrap_int(self, term, width, signed):
        lo, hi = self.int_range(width, signed)
        m = "(mod %s %d)" % (term, 1 << width)
        if signed:
            return "(ite (> %s %d) (- %s %d) %s)" % (m, hi, m, 1 << width, m)
        return m

    # -- operands -------------------------------------------------------------------------
    def operand(self, text, env, fn):
        t = text.strip()
        t = re.sub(r"^(copy|move) ", "", t)
        m = re.match(r"const (.*)$", t)
        if m:
            return self.constant(m.group(1))
        m = re.match(r"\((_\d+)\.(\d+): (.*?)\)$", t)
        if m:
            base, idx = m.group(1), int(m.group(2))
            v = env.get(base)
            if v is None or v.kind != "tuple":
                raise Unsupported("tuple field of non-tuple " + t)
            return v.items[idx]
        m = re.match(r"\(\((_\d+) as Ok\)\.0: (.*?)\)$", t)
        if m:
            v = env.get(m.group(1))
            if v is None or v.kind != "result":
                raise Unsupported("Ok payload of non-result " + t)
            return v.items[1]
        m = re.match(r"\(\(\*(_\d+)\)\.(\d+): (.*?)\)$", t)
        if m:
            key = "%s.f%s" % (m.group(1), m.group(2))
            if key not in env:
                raise Unsupported("unbound field " + key)
            return env[key]
        m = re.match(r"\(\*(_\d+)\)$", t)
        if m:
            key = m.group(1) + ".deref"
            if key in env:
                return env[key]
            raise Unsupported("deref " + t)
        if re.match(r"_\d+$", t):
            if t not in env:
                raise Unsupported("unbound local " + t)
            return env[t]
        raise Unsupported("operand " + text)

    def constant(self, c):
        c = c.strip()
        if c in ("true", "false"):
            return Value("bool", c)
        m = re.match(r"(-?\d+)_(\w+)$", c)
        if m and m.group(2) in INT_TYPES:
            w = INT_TYPES[m.group(2)]
            return Value("int", self.lit(int(m.group(1)), w), w, m.group(2) in SIGNED)
        m = re.match(r"(\w+)::(MIN|MAX)$", c)
        if m and m.group(1) in INT_TYPES:
            w = INT_TYPES[m.group(1)]
            signed = m.group(1) in SIGNED
            if signed:
                val = -(1 << (w - 1)) if m.group(2) == "MIN" else (1 << (w - 1)) - 1
            else:
                val = 0 if m.group(2) == "MIN" else (1 << w) - 1
            return Value("int", self.lit(val, w), w, signed)
        if c in self.consts:
            val, ty = self.consts[c]
            w = INT_TYPES[ty]
            return Value("int", self.lit(val, w), w, ty in SIGNED)
        raise Unsupported("constant " + c)

    # -- rvalues --------------------------------------------------------------------------
    def rvalue(self, text, env, fn, dest_ty):
        t = text.strip()
        m = re.match(r"(\w+)\((.*)\)$", t)
        if m and m.group(1) in ("Eq", "Ne", "Lt", "Le", "Gt", "Ge", "BitAnd", "BitOr", "BitXor",
                                "Add", "Sub", "Mul", "Div", "Rem", "AddWithOverflow",
                                "SubWithOverflow", "MulWithOverflow", "Not", "Neg",
                                "AddUnchecked", "SubUnchecked", "MulUnchecked"):
            op = m.group(1)
            args = [self.operand(a, env, fn) for a in split_top(m.group(2))]
            return self.binop(op, args)
        m = re.match(r"discriminant\((_\d+)\)$", t)
        if m:
            v = env.get(m.group(1))
            if v is None:
                raise Unsupported("discriminant of unbound " + t)
            if v.kind == "result":   # Ok = 0, Err = 1
                if self.mode == "int":
                    return Value("int", "(ite %s 0 1)" % v.items[0], 64, True)
                return Value("int", "(ite %s %s %s)" % (v.items[0], bv_const(0, 64),
                                                         bv_const(1, 64)), 64, True)
            return v
        m = re.match(r"Result::<.*>::(Ok|Err)\(.*\)$", t)
        if m:
            return Value("variant", m.group(1))
        m = re.match(r"(.*) as (\w+) \(IntToInt\)$", t)
        if m:
            v = self.operand(m.group(1), env, fn)
            w, signed = ty_width(m.group(2))
            if self.mode == "int":
                if v.kind == "bool":
                    return Value("int", "(ite %s 1 0)" % v.smt, w, signed)
                lo, hi = self.int_range(w, signed)
                vlo, vhi = self.int_range(v.width, v.signed)
                if lo <= vlo and vhi <= hi:
                    return Value("int", v.smt, w, signed)
                return Value("int", self.wrap_int(v.smt, w, signed), w, signed)
            if v.kind == "bool":
                return Value("int", "(ite %s %s %s)" % (v.smt, bv_const(1, w), bv_const(0, w)),
                             w, signed)
            if w == v.width:
                return Value("int", v.smt, w, signed)
            if w < v.width:
                return Value("int", "((_ extract %d 0) %s)" % (w - 1, v.smt), w, signed)
            ext = "sign_extend" if v.signed else "zero_extend"
            return Value("int", "((_ %s %d) %s)" % (ext, w - v.width, v.smt), w, signed)
        m = re.match(r"&(?:mut )?(_\d+)$", t)
        if m:
            raise Unsupported("reference " + t)
        return self.operand(t, env, fn)

    def binop(self, op, a):
        if self.mode == "int":
            return self.binop_int(op, a)
        if op == "Not":
            v = a[0]
            if v.kind == "bool":
                return Value("bool", "(not %s)" % v.smt)
            return Value("int", "(bvnot %s)" % v.smt, v.width, v.signed)
        if op == "Neg":
            v = a[0]
            return Value("int", "(bvneg %s)" % v.smt, v.width, v.signed)
        x, y = a
        if op in ("BitAnd", "BitOr", "BitXor") and x.kind == "bool":
            f = {"BitAnd": "and", "BitOr": "or", "BitXor": "xor"}[op]
            return Value("bool", "(%s %s %s)" % (f, x.smt, y.smt))
        if op in ("Eq", "Ne"):
            e = "(= %s %s)" % (x.smt, y.smt)
            return Value("bool", e if op == "Eq" else "(not %s)" % e)
        if x.kind != "int":
            raise Unsupported("binop %s on %s" % (op, x.kind))
        s = x.signed
        w = x.width
        cmp_ops = {"Lt": "bvslt" if s else "bvult", "Le": "bvsle" if s else "bvule",
                   "Gt": "bvsgt" if s else "bvugt", "Ge": "bvsge" if s else "bvuge"}
        if op in cmp_ops:
            return Value("bool", "(%s %s %s)" % (cmp_ops[op], x.smt, y.smt))
        arith = {"Add": "bvadd", "Sub": "bvsub", "Mul": "bvmul", "AddUnchecked": "bvadd",
                 "SubUnchecked": "bvsub", "MulUnchecked": "bvmul",
                 "BitAnd": "bvand", "BitOr": "bvor", "BitXor": "bvxor",
                 "Div": "bvsdiv" if s else "bvudiv", "Rem": "bvsrem" if s else "bvurem"}
        if op in arith:
            return Value("int", "(%s %s %s)" % (arith[op], x.smt, y.smt), w, s)
        if op.endswith("WithOverflow"):
            base = op[:-len("WithOverflow")]
            f = {"Add": "bvadd", "Sub": "bvsub", "Mul": "bvmul"}[base]
            wrapped = "(%s %s %s)" % (f, x.smt, y.smt)
            ext = "sign_extend" if s else "zero_extend"
            ew = w if base == "Mul" else 1
            wx = "((_ %s %d) %s)" % (ext, ew, x.smt)
            wy = "((_ %s %d) %s)" % (ext, ew, y.smt)
            wide = "(%s %s %s)" % (f, wx, wy)
            back = "((_ %s %d) %s)" % (ext, ew, wrapped)
            overflow = "(not (= %s %s))" % (wide, back)
            return Value("tuple", items=[Value("int", wrapped, w, s), Value("bool", overflow)])
        raise Unsupported("binop " + op)

    def binop_int(self, op, a):
        if op == "Not":
            v = a[0]
            if v.kind == "bool":
                return Value("bool", "(not %s)" % v.smt)
            raise Unsupported("bitwise not in int mode")
        if op == "Neg":
            v = a[0]
            return Value("int", self.wrap_int("(- %s)" % v.smt, v.width, v.signed), v.width,
                         v.signed)
        x, y = a
        if op in ("BitAnd", "BitOr", "BitXor") and x.kind == "bool":
            f = {"BitAnd": "and", "BitOr": "or", "BitXor": "xor"}[op]
            return Value("bool", "(%s %s %s)" % (f, x.smt, y.smt))
        if op in ("Eq", "Ne"):
            e = "(= %s %s)" % (x.smt, y.smt)
            return Value("bool", e if op == "Eq" else "(not %s)" % e)
        if x.kind != "int":
            raise Unsupported("binop %s on %s" % (op, x.kind))
        w, sg = x.width, x.signed
        cmp_ops = {"Lt": "<", "Le": "<=", "Gt": ">", "Ge": ">="}
        if op in cmp_ops:
            return Value("bool", "(%s %s %s)" % (cmp_ops[op], x.smt, y.smt))
        lo, hi = self.int_range(w, sg)
        if op in ("Div", "Rem"):
            # truncated division: fresh q, r with a = q*b + r, |r| < |b|, r has the sign of a
            q = self.fresh_var("q", "Int")
            r = self.fresh_var("r", "Int")
            self.side.append(
                "(=> (not (= %s 0)) (and (= %s (+ (* %s %s) %s)) (< (abs %s) (abs %s)) "
                "(=> (> %s 0) (>= %s 0)) (=> (< %s 0) (<= %s 0)) (=> (= %s 0) (= %s 0))))" % (
                    y.smt, x.smt, q, y.smt, r, r, y.smt, x.smt, r, x.smt, r, x.smt, r))
            if op == "Div":
                # i32::MIN / -1 is excluded by the MIR's own assert before the Div
                return Value("int", q, w, sg)
            return Value("int", r, w, sg)
        f = {"Add": "+", "Sub": "-", "Mul": "*", "AddUnchecked": "+", "SubUnchecked": "-",
             "MulUnchecked": "*"}
        if op in f:
            exact = "(%s %s %s)" % (f[op], x.smt, y.smt)
            return Value("int", self.wrap_int(exact, w, sg), w, sg)
        if op.endswith("WithOverflow"):
            base = op[:-len("WithOverflow")]
            exact = "(%s %s %s)" % ({"Add": "+", "Sub": "-", "Mul": "*"}[base], x.smt, y.smt)
            overflow = "(or (< %s %s) (> %s %s))" % (exact, self.int_lit(lo), exact,
                                                    self.int_lit(hi))
            # the wrapped value is only read on the no-overflow path in checked builds; it is
            # still modelled exactly
            value = "(ite %s %s %s)" % (overflow, self.wrap_int(exact, w, sg), exact)
            return Value("tuple", items=[Value("int", value, w, sg), Value("bool", overflow)])
        raise Unsupported("binop %s in int mode" % op)

    # -- symbolic execution ---------------------------------------------------------------
    def execute(self, fn, args, depth=0):
        """args: list of Value (or dict of field Values for reference args).
        Returns Summary."""
        if depth > 6:
            raise Unsupported("inline depth")
        env = {}
        for (local, ty), val in zip(fn.args, args):
            if isinstance(val, dict):
                for k, v in val.items():
                    env["%s.%s" % (local, k)] = v
            else:
                env[local] = val
        summary = Summary()
        self._run(fn, "bb0", env, [], summary, depth, 0)
        return summary

    def _run(self, fn, label, env, pc, summary, depth, steps):
        if steps > 200:
            raise Unsupported("path too long (loop?) in " + fn.name)
        env = dict(env)
        lines = fn.blocks.get(label)
        if lines is None:
            raise Unsupported("missing block " + label)
        for idx, line in enumerate(lines):
            s = line.rstrip(";")
            last = idx == len(lines) - 1
            if s.startswith(("StorageLive", "StorageDead", "nop", "FakeRead", "PlaceMention",
                             "Retag", "AscribeUserType", "Coverage", "ConstEvalCounter")):
                continue
            if last:
                return self._terminator(fn, s, env, pc, summary, depth, steps)
            m = re.match(r"(_\d+) = (.*)$", s)
            if not m:
                m2 = re.match(r"\((_\d+)\.(\d+): (.*?)\) = (.*)$", s)
                if m2:
                    summary.unsupported.append((smt_and(pc), "field assignment " + s))
                    return
                summary.unsupported.append((smt_and(pc), "statement " + s))
                return
            dest, rhs = m.group(1), m.group(2)
            try:
                env[dest] = self.rvalue(rhs, env, fn, fn.locals.get(dest))
            except Unsupported as e:
                # an unsupported value only matters if it is used later; poison it
                env.pop(dest, None)
                env["!poison:" + dest] = str(e)
        raise Unsupported("block without terminator " + label)

    def _terminator(self, fn, s, env, pc, summary, depth, steps):
        if s == "return":
            summary.paths += 1
            if "_0" in env:
                summary.returns.append((smt_and(pc), env["_0"]))
            elif fn.ret == "()":
                summary.returns.append((smt_and(pc), None))
            else:
                summary.unsupported.append((smt_and(pc), "return of unbound _0 (%s)" % env.get(
                    "!poison:_0", "?")))
            return
        if s == "unreachable":
            return
        m = re.match(r"goto -> (bb\d+)$", s)
        if m:
            return self._run(fn, m.group(1), env, pc, summary, depth, steps + 1)
        m = re.match(r"assert\((!?)(.*?), \"(.*?)\".*\) -> \[success: (bb\d+).*\]$", s)
        if m:
            neg, cond_text, msg, succ = m.groups()
            try:
                cond = self.operand(cond_text, env, fn)
            except Unsupported as e:
                summary.unsupported.append((smt_and(pc), "assert operand: %s" % e))
                return
            c = cond.smt
            ok = "(not %s)" % c if neg else c
            bad = c if neg else "(not %s)" % c
            summary.panics.append((smt_and(pc + [bad]), msg))
            return self._run(fn, succ, env, pc + [ok], summary, depth, steps + 1)
        m = re.match(r"switchInt\((.*?)\) -> \[(.*)\]$", s)
        if m:
            try:
                v = self.operand(m.group(1), env, fn)
            except Unsupported as e:
                summary.unsupported.append((smt_and(pc), "switch operand: %s" % e))
                return
            targets = [t.strip() for t in m.group(2).split(",")]
            taken = []
            for t in targets:
                k, lbl = [x.strip() for x in t.split(":")]
                if k == "otherwise":
                    cond = smt_and(["(not %s)" % c for c in taken])
                else:
                    if v.kind == "bool":
                        cond = v.smt if int(k) != 0 else "(not %s)" % v.smt
                    else:
                        cond = "(= %s %s)" % (v.smt, self.lit(int(k), v.width))
                    taken.append(cond)
                self._run(fn, lbl, env, pc + [cond], summary, depth, steps + 1)
            return
        m = re.match(r"(_\d+) = (.*?)\((.*)\) -> \[return: (bb\d+).*\]$", s)
        if m:
            dest, callee, argtext, ret = m.groups()
            for pat, target in self.inline.items():
                if re.search(pat, callee):
                    callee_fn = find_function(self.funcs, target)
                    try:
                        cargs = [self.operand(a, env, fn) for a in split_top(argtext)]
                    except Unsupported as e:
                        summary.unsupported.append((smt_and(pc), "call args: %s" % e))
                        return
                    sub = self.execute(callee_fn, cargs, depth + 1)
                    for (c, msg) in sub.panics:
                        summary.panics.append((smt_and(pc + [c]), msg + " [in %s]" % target))
                    for (c, what) in sub.unsupported:
                        summary.unsupported.append((smt_and(pc + [c]), what))
                    for (c, val) in sub.returns:
                        env2 = dict(env)
                        env2[dest] = val
                        self._run(fn, ret, env2, pc + [c], summary, depth, steps + 1)
                    return
            tm = re.match(r"<(\w+) as TryFrom<(\w+)>>::try_from$", callee.strip())
            if tm and tm.group(1) in INT_TYPES and tm.group(2) in INT_TYPES:
                # contract of core's integer TryFrom: Ok(x as T) iff x is representable in T
                try:
                    (x,) = [self.operand(a, env, fn) for a in split_top(argtext)]
                except Unsupported as e:
                    summary.unsupported.append((smt_and(pc), "try_from arg: %s" % e))
                    return
                w, signed = ty_width(tm.group(1))
                lo, hi = self.int_range(w, signed)
                if self.mode == "int":
                    ok = "(and (>= %s %s) (<= %s %s))" % (x.smt, self.int_lit(lo), x.smt,
                                                          self.int_lit(hi))
                    val = Value("int", x.smt, w, signed)
                elif x.signed and signed and w < x.width:
                    ok = "(and (bvsge %s %s) (bvsle %s %s))" % (
                        x.smt, bv_const(lo, x.width), x.smt, bv_const(hi, x.width))
                    val = Value("int", "((_ extract %d 0) %s)" % (w - 1, x.smt), w, signed)
                else:
                    summary.unsupported.append((smt_and(pc), "try_from " + callee))
                    return
                env2 = dict(env)
                env2[dest] = Value("result", items=[ok, val])
                return self._run(fn, ret, env2, pc, summary, depth, steps + 1)
            for pat, obs in self.observe.items():
                if re.search(pat, callee):
                    cargs = []
                    for a in split_top(argtext):
                        try:
                            cargs.append(self.operand(a, env, fn))
                        except Unsupported:
                            cargs.append(None)
                    summary.observed.append((smt_and(pc), obs, cargs))
                    env2 = dict(env)
                    env2[dest] = Value("opaque", "opaque:" + obs)
                    return self._run(fn, ret, env2, pc, summary, depth, steps + 1)
            summary.unsupported.append((smt_and(pc), "call to " + callee))
            return
        m = re.match(r"(_\d+) = (.*?)\((.*)\) -> unwind continue$", s)
        if m or re.search(r"-> unwind continue$", s) or "panic" in s:
            # diverging call (panic machinery)
            summary.panics.append((smt_and(pc), "diverging call: " + s[:80]))
            return
        summary.unsupported.append((smt_and(pc), "terminator " + s[:100]))

    # -- summaries as SMT terms -----------------------------------------------------------
    @staticmethod
    def return_term(summary, width):
        """Nested ite over the return paths (value of the last path as default)."""
        rets = [(c, v) for c, v in summary.returns if v is not None]
        if not rets:
            raise Unsupported("no return path")
        term = rets[-1][1].smt
        for c, v in reversed(rets[:-1]):
            term = "(ite %s %s %s)" % (c, v.smt, term)
        return term

    @staticmethod
    def panic_term(summary):
        return smt_or([c for c, _ in summary.panics])

    @staticmethod
    def returns_term(summary):
        return smt_or([c for c, _ in summary.returns])
