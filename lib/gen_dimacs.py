#!/usr/bin/env python3
"""Regenerate harness/dimacs_kani/src/dimacs_gen.rs = current /repo dimacs.rs + harness tail."""
import os
import re

ROOT = os.path.dirname(os.path.dirname(os.path.abspath(__file__)))
REPO = os.environ.get("VERIF_REPO", "/repo")
SRC = os.path.join(REPO, "pumpkin-solver/src/bin/pumpkin-solver/parsers/dimacs.rs")
CRATE = os.path.join(ROOT, "harness", "dimacs_kani")


def generate():
    text = open(SRC).read()
    # the unit tests of the file are not part of the harness crate
    i = text.find("#[cfg(test)]\nmod tests")
    if i >= 0:
        text = text[:i]
    tail = open(os.path.join(CRATE, "tail.rs")).read()
    out = text.rstrip("\n") + "\n" + tail
    path = os.path.join(CRATE, "src", "dimacs_gen.rs")
    old = open(path).read() if os.path.exists(path) else None
    if old != out:
        with open(path, "w") as f:
            f.write(out)
    lock_src = os.path.join(REPO, "Cargo.lock")
    lock_dst = os.path.join(CRATE, "Cargo.lock")
    if not os.path.exists(lock_dst):
        import shutil
        shutil.copy(lock_src, lock_dst)
    return path


if __name__ == "__main__":
    print(generate())
