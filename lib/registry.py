"""What each harness encodes, which obligations it carries, and which properties it serves.

Obligation tags (DESIGN.md §3) appear as a prefix of the assertion message in the harness code:
  O1 no solution pruned      O2 conflicts are real / sufficient   O3 explanation sufficient
  O4 explanation facts hold  O5 checker at a full assignment      O7 no panic / overflow in the
  code under test (every failed check located in /repo that is not one of the tagged ones)
  K-* kernel obligations (named per harness)
"""

# tag -> properties that the tag is evidence for
TAG_PROPS = {
    "O1": ["C02", "C12", "C17", "C16", "C08", "C09"],
    "O2": ["C02", "C17", "C16", "C08", "C09", "C06"],
    "O3": ["C17", "C06", "C16", "C08", "C09", "C02"],
    "O4": ["C17", "C08", "C09"],
    "O5": ["C01", "C09", "C08"],
    "O7": ["C16"],
}

STUBS_S = [
    "S1 Assignments::{get_lower_bound,get_upper_bound,is_value_in_domain,tighten_lower_bound,"
    "tighten_upper_bound,remove_value_from_domain,make_assignment} -> shadow domain store "
    "(harness/pumpkin_solver/shadow.rs; contract = documented meaning of Assignments)",
    "S2 ReasonStore::push -> no-op after the reason was checked by the monitor tap "
    "(cfg hook in PropagationContextMut::{remove,set_lower_bound,set_upper_bound,post_predicate})",
    "S3 PropagatorInitialisationContext::register -> registration in the real WatchListCP "
    "without the fixed-variable shortcut",
    "S4 alloc::fmt::format -> empty string (panic/assert messages only)",
]

HARNESSES = {}


def H(name, crate, family, tags, tier, encodes, inputs, bounds, props_extra=None, timeout=1500,
      mem_gb=8, covers=None, full_range=False, stubs=None, only_props=None, deps=()):
    HARNESSES[name] = dict(
        name=name, crate=crate, family=family, tags=tags, tier=tier, encodes=encodes,
        inputs=inputs, bounds=bounds, props_extra=props_extra or {}, timeout=timeout,
        mem_gb=mem_gb, covers=covers or [], full_range=full_range,
        stubs=STUBS_S if stubs is None else stubs, only_props=only_props, deps=deps,
    )


PROTOCOL = ("ConstraintSatisfactionSolver::add_propagator / propagate / backtrack life cycle "
            "restricted to one propagator (harness/pumpkin_solver/env.rs::protocol)")
CTX = ["PropagationContextMut::{set_lower_bound,set_upper_bound,remove,post_predicate,build_reason}",
       "ReadDomains::*", "Assignments::evaluate_predicate", "WatchListCP / Watchers::watch_all"]

LIN_LEQ = ["LinearLessOrEqualPropagator::{new,initialise_at_root,detect_inconsistency,notify,"
           "propagate,create_conflict_reason}"] + CTX
LIN_NE = ["LinearNotEqualPropagator::{new,initialise_at_root,notify,notify_backtrack,propagate,"
          "recalculate_fixed_variables,check_for_conflict}"] + CTX
VIEW = ["AffineView::{lower_bound,upper_bound,contains,set_lower_bound,set_upper_bound,remove,"
        "map,invert,watch_all}", "AffineView as PredicateConstructor", "NumExt::{div_ceil,div_floor}"]

ALLO = ["O1", "O2", "O3", "O4", "O5", "O7"]

H("h_linear::lin_leq_ids_2", "pumpkin-solver", "lin_leq", ALLO, "quick", LIN_LEQ,
  "x1,x2: any non-empty i32 interval; c: any i32; V,W: any points of i32^2",
  "n=2 DomainId terms, 0 holes, posting only (<=2 propagate calls), unwind 10",
  covers=["root conflict", "propagation at posting", "propagation at posting with live witness"],
  full_range=True)
H("h_linear::lin_leq_ids_3_change", "pumpkin-solver", "lin_leq", ALLO, "quick", LIN_LEQ,
  "x1..x3: any non-empty i32 interval; c: any i32; one change (var, kind, value) symbolic; V,W",
  "n=3 DomainId terms, 0 holes, posting + 1 symbolic change + notify + propagate, unwind 10",
  covers=["root conflict", "propagation at posting", "propagation after a change",
          "conflict after a change"],
  full_range=True, timeout=2400)
H("h_linear::lin_leq_ids_2_holes_change", "pumpkin-solver", "lin_leq", ALLO, "thorough", LIN_LEQ,
  "x1,x2: any interval with 1 hole each; c; one symbolic change; V,W",
  "n=2, 1 hole per variable, posting + 1 change, unwind 10", full_range=True,
  covers=["propagation at posting", "propagation after a change"])
H("h_linear::lin_leq_views_pos_neg_change", "pumpkin-solver", "lin_leq", ALLO, "quick",
  LIN_LEQ + VIEW,
  "x1,x2: any interval; views 1*x1+o1, -1*x2+o2 with any offsets whose images fit i32; c; one change",
  "n=2 AffineView<DomainId> terms (scales 1,-1), posting + 1 change, unwind 10", full_range=True,
  covers=["propagation at posting", "propagation after a change"], timeout=2400)
H("h_linear::lin_leq_views_2_m3", "pumpkin-solver", "lin_leq", ALLO, "thorough", LIN_LEQ + VIEW,
  "x1,x2: any interval with 1 hole; views 2*x1+o1, -3*x2+o2 (images fit i32); c",
  "n=2 AffineView terms (scales 2,-3), 1 hole, posting only, unwind 10", full_range=True,
  covers=["propagation at posting"], timeout=2400)
H("h_linear::lin_leq_ids_2_backtrack", "pumpkin-solver", "lin_leq", ALLO, "thorough", LIN_LEQ,
  "x1,x2 any interval; c; two symbolic changes, the first one undone by backtracking",
  "n=2, posting + change + backtrack (real synchronise of trailed state) + change, unwind 10",
  full_range=True, covers=["propagation after a change"], timeout=2400)

H("h_linear::lin_ne_ids_2", "pumpkin-solver", "lin_ne", ALLO, "quick", LIN_NE,
  "x1,x2: any interval with 1 hole; rhs any i32; two symbolic changes; V,W",
  "n=2 DomainId terms, 1 hole, posting + 2 changes with notify(Assign) through the real watch list",
  covers=["root conflict", "propagation after a change", "conflict after a change"],
  full_range=True, timeout=2400)
H("h_linear::lin_ne_ids_3", "pumpkin-solver", "lin_ne", ALLO, "thorough", LIN_NE,
  "x1..x3 any interval; rhs; two changes", "n=3, 0 holes, posting + 2 changes", full_range=True,
  covers=["propagation after a change"], timeout=3000)
H("h_linear::lin_ne_views_pos_neg", "pumpkin-solver", "lin_ne", ALLO, "thorough", LIN_NE + VIEW,
  "x1,x2 any interval; views 1*x1+o1, -1*x2+o2 (images fit i32); rhs; two changes",
  "n=2 AffineView terms, posting + 2 changes", full_range=True,
  covers=["propagation after a change"], timeout=3000)
H("h_linear::lin_ne_ids_2_backtrack", "pumpkin-solver", "lin_ne", ALLO, "quick", LIN_NE,
  "x1,x2 any interval; rhs; two changes, the first undone by backtracking",
  "n=2, posting + change + backtrack (real synchronise + notify_backtrack) + change",
  full_range=True, covers=["propagation after a change", "conflict after a change"], timeout=2400)

ABS = ["AbsoluteValuePropagator::{initialise_at_root,debug_propagate_from_scratch}"] + CTX
MAXP = ["MaximumPropagator::{initialise_at_root,debug_propagate_from_scratch}"] + CTX
MUL = ["IntegerMultiplicationPropagator::debug_propagate_from_scratch",
       "integer_multiplication::{perform_propagation,propagate_signs,div_ceil_pos}"] + CTX
DIV = ["DivisionPropagator::{initialise_at_root,debug_propagate_from_scratch}",
       "division::{perform_propagation,propagate_signs,propagate_upper_bounds,"
       "propagate_positive_domains}"] + CTX + VIEW

H("h_arith::abs_ids_full", "pumpkin-solver", "abs", ALLO, "quick", ABS,
  "signed: any interval with 1 hole; absolute: any interval; V,W", "full i32, posting only",
  full_range=True, covers=["propagation at posting", "conflict at posting"])
H("h_arith::abs_negated_view_full", "pumpkin-solver", "abs", ALLO, "thorough", ABS + VIEW,
  "signed = -x (x any interval, lb > i32::MIN); absolute any interval", "full i32, posting only",
  full_range=True, covers=["propagation at posting"])
H("h_arith::max_ids_2", "pumpkin-solver", "max", ALLO, "quick", MAXP,
  "a1,a2,rhs: any interval with 1 hole; V,W", "n=2, full i32, posting only", full_range=True,
  covers=["propagation at posting", "conflict at posting"])
H("h_arith::max_ids_3", "pumpkin-solver", "max", ALLO, "thorough", MAXP,
  "a1..a3,rhs any interval", "n=3, full i32, posting only", full_range=True,
  covers=["propagation at posting"], timeout=2400)
H("h_arith::min_as_negated_max_2", "pumpkin-solver", "max", ALLO, "thorough", MAXP + VIEW,
  "minimum(a1,a2)=rhs posted as maximum over scaled(-1) views; any interval with lb > i32::MIN",
  "n=2, full i32 minus i32::MIN, posting only", full_range=True,
  covers=["propagation at posting"], timeout=2400)
H("h_arith::mul_ids_64", "pumpkin-solver", "mul", ALLO, "quick", MUL,
  "a,b,c: any sub-interval of [-64,64]; V,W any i32 points", "|bounds| <= 64, posting only",
  covers=["propagation at posting", "conflict at posting"])
H("h_arith::mul_ids_1024", "pumpkin-solver", "mul", ALLO, "thorough", MUL,
  "a,b,c: any sub-interval of [-1024,1024]", "|bounds| <= 1024, posting only",
  covers=["propagation at posting"], timeout=3000)
H("h_arith::mul_ids_66000", "pumpkin-solver", "mul", ALLO, "thorough", MUL,
  "a,b,c: any sub-interval of [-66000,66000] (past the i32 product boundary 46341^2)",
  "|bounds| <= 66000, posting only", covers=["propagation at posting"], timeout=3600,
  full_range=True)
H("h_arith::div_ids_64", "pumpkin-solver", "div", ALLO, "quick", DIV,
  "numerator, denominator (0 excluded), rhs: any sub-interval of [-64,64]; V,W any i32 points",
  "|bounds| <= 64, posting only", covers=["propagation at posting", "conflict at posting"])
H("h_arith::div_ids_1024", "pumpkin-solver", "div", ALLO, "thorough", DIV,
  "any sub-interval of [-1024,1024]", "|bounds| <= 1024, posting only",
  covers=["propagation at posting"], timeout=3000)

ELEM = ["ElementPropagator::{initialise_at_root,debug_propagate_from_scratch,lazy_explanation,"
        "propagate_index_bounds_within_array,propagate_rhs_bounds_based_on_array,"
        "propagate_index_based_on_domain_intersection_with_rhs,propagate_equality}",
        "RightHandSideReason bitfield", "StoredReason::DynamicLazy resolution"] + CTX
H("h_element::element_2", "pumpkin-solver", "element", ALLO, "quick", ELEM,
  "x1,x2,rhs: any i32 interval; index: any sub-interval of [-2,3] with 1 hole; V,W",
  "array length 2, posting (<=2 propagate calls), lazy reasons resolved at propagation time and "
  "again in the final state, unwind 9",
  covers=["propagation at posting", "lazy reason resolved"], full_range=True)
H("h_element::element_2_change", "pumpkin-solver", "element", ALLO, "thorough", ELEM,
  "as element_2 without holes + one symbolic change", "array length 2, posting + 1 change",
  covers=["propagation at posting", "lazy reason resolved"], full_range=True, timeout=2400)
H("h_element::element_3", "pumpkin-solver", "element", ALLO, "thorough", ELEM,
  "x1..x3,rhs any interval; index sub-interval of [-2,4] with 1 hole", "array length 3, posting",
  covers=["propagation at posting", "lazy reason resolved"], full_range=True, timeout=2400)

REIF = ["ReifiedPropagator::{new,initialise_at_root,notify,notify_backtrack,synchronise,"
        "propagate,propagate_reification,map_propagation_status,filter_enqueue_decision,"
        "find_inconsistency}", "PropagationContextMut::{with_reification,build_reason,"
        "assign_literal}", "Literal::{get_true_predicate,get_false_predicate}"]
H("h_reified::reified_leq_2_change", "pumpkin-solver", "reified", ALLO, "quick",
  REIF + LIN_LEQ,
  "x1,x2 any interval; r in {free,true,false}; c; one symbolic change (to r or a variable); V,W",
  "r -> x1+x2<=c, posting + 1 change with notify through the watch table", full_range=True,
  covers=["propagation at posting", "propagation after a change"], timeout=2400)
H("h_reified::reified_leq_2_backtrack", "pumpkin-solver", "reified", ALLO, "thorough",
  REIF + LIN_LEQ,
  "as above; two changes, the first undone by backtracking (cached inconsistency cleared by "
  "the real synchronise)", "posting + change + backtrack + change", full_range=True,
  covers=["propagation after a change"], timeout=3000)
H("h_reified::reified_ne_2_changes", "pumpkin-solver", "reified", ALLO, "thorough",
  REIF + LIN_NE, "x1,x2 any interval; r; rhs; two symbolic changes",
  "r -> x1+x2!=rhs, posting + 2 changes", full_range=True,
  covers=["propagation after a change"], timeout=3000)


# property -> what is claimed (filled as harness families are added)
PROPERTY_TAGS = {
    # which tags count as a violation of the property when they fail in a harness serving it
    "C01": ["O5"],
    "C02": ["O1", "O2", "O3"],
    "C06": ["O2", "O3"],
    "C12": ["O1"],
    "C16": ["O7", "O1", "O2", "O3"],
    "C17": ["O1", "O2", "O3", "O4"],
    "C08": ["O1", "O2", "O3", "O4", "O5"],
    "C09": ["O1", "O2", "O3", "O4", "O5"],
}


def harnesses_for(prop, tier):
    """Harnesses whose obligations are evidence for `prop` in the given tier
    (thorough includes quick)."""
    out = []
    for h in HARNESSES.values():
        if tier == "quick" and h["tier"] != "quick":
            continue
        if h["only_props"] is not None:
            if prop in h["only_props"]:
                out.append(h)
            continue
        tags = set(PROPERTY_TAGS.get(prop, []))
        if prop == "C16" and not h["full_range"]:
            # range-limited harnesses are evidence for C16 only through O7 (no panic in range)
            tags = {"O7"}
        if prop in ("C08",) and h["family"] not in ("cumulative",):
            continue
        if prop in ("C09",) and h["family"] not in ("reified",):
            continue
        if tags & set(h["tags"]):
            out.append(h)
    return out
