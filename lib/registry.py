"""What each harness encodes, which obligations it carries, and which properties it serves.

Obligation tags (DESIGN.md §3) appear as a prefix of the assertion message in the harness code:
  O1 no solution pruned      O2 conflicts are real / sufficient   O3 explanation sufficient
  O4 explanation facts hold  O5 checker at a full assignment      O7 no panic / overflow in the
  code under test (every failed check located in /repo that is not one of the tagged ones)
  K-* kernel obligations (named per harness)
"""

# tag -> properties that the tag is evidence for
TAG_PROPS = {
    "O1": ["C02", "C12", "C17", "C16", "C08", "C09"],
    "O2": ["C02", "C17", "C16", "C08", "C09", "C06"],
    "O3": ["C17", "C06", "C16", "C08", "C09", "C02"],
    "O4": ["C17", "C08", "C09"],
    "O5": ["C01", "C09", "C08"],
    "O7": ["C16"],
}

STUBS_S = [
    "S1 Assignments::{get_lower_bound,get_upper_bound,is_value_in_domain,tighten_lower_bound,"
    "tighten_upper_bound,remove_value_from_domain,make_assignment} -> shadow domain store "
    "(harness/pumpkin_solver/shadow.rs; contract = documented meaning of Assignments)",
    "S2 ReasonStore::push -> no-op after the reason was checked by the monitor tap "
    "(cfg hook in PropagationContextMut::{remove,set_lower_bound,set_upper_bound,post_predicate})",
    "S3 PropagatorInitialisationContext::register -> registration in the real WatchListCP "
    "without the fixed-variable shortcut",
    "S4 alloc::fmt::format -> empty string (panic/assert messages only)",
    "S7 TrailedAssignments::{grow,read,add_assign,assign,increase_decision_level,synchronise} -> "
    "fixed array of trailed integers with one snapshot level",
]

HARNESSES = {}


def H(name, crate, family, tags, tier, encodes, inputs, bounds, props_extra=None, timeout=1500,
      mem_gb=8, covers=None, full_range=False, stubs=None, only_props=None, deps=()):
    HARNESSES[name] = dict(
        name=name, crate=crate, family=family, tags=tags, tier=tier, encodes=encodes,
        inputs=inputs, bounds=bounds, props_extra=props_extra or {}, timeout=timeout,
        mem_gb=mem_gb, covers=covers or [], full_range=full_range,
        stubs=STUBS_S if stubs is None else stubs, only_props=only_props, deps=deps,
    )


PROTOCOL = ("ConstraintSatisfactionSolver::add_propagator / propagate / backtrack life cycle "
            "restricted to one propagator (harness/pumpkin_solver/env.rs::protocol)")
CTX = ["PropagationContextMut::{set_lower_bound,set_upper_bound,remove,post_predicate,build_reason}",
       "ReadDomains::*", "Assignments::evaluate_predicate", "WatchListCP / Watchers::watch_all"]

LIN_LEQ = ["LinearLessOrEqualPropagator::{new,initialise_at_root,detect_inconsistency,notify,"
           "propagate,create_conflict_reason}"] + CTX
LIN_NE = ["LinearNotEqualPropagator::{new,initialise_at_root,notify,notify_backtrack,propagate,"
          "recalculate_fixed_variables,check_for_conflict}"] + CTX
VIEW = ["AffineView::{lower_bound,upper_bound,contains,set_lower_bound,set_upper_bound,remove,"
        "map,invert,watch_all}", "AffineView as PredicateConstructor", "NumExt::{div_ceil,div_floor}"]

ALLO = ["O1", "O2", "O3", "O4", "O5", "O7"]

H("h_linear::lin_leq_ids_2", "pumpkin-solver", "lin_leq", ALLO, "quick", LIN_LEQ,
  "x1,x2: any non-empty i32 interval; c: any i32; V,W: any points of i32^2",
  "n=2 DomainId terms, 0 holes, posting only (<=2 propagate calls), unwind 10",
  covers=["propagation at posting with live witness", "propagation at posting with live witness"],
  full_range=True)
H("h_linear::lin_leq_ids_2_change", "pumpkin-solver", "lin_leq", ALLO, "quick", LIN_LEQ,
  "x1,x2: any non-empty i32 interval; c; one symbolic change (var, kind, value); V,W",
  "n=2, posting + 1 symbolic change + real notify + propagate, unwind 4",
  covers=["propagation at posting with live witness", "propagation after a change"],
  full_range=True, timeout=2400, mem_gb=12)
H("h_linear::lin_leq_ids_3", "pumpkin-solver", "lin_leq", ALLO, "thorough", LIN_LEQ,
  "x1..x3: any non-empty i32 interval; c; V,W", "n=3, posting only, unwind 5",
  covers=["propagation at posting with live witness"], full_range=True, timeout=3000, mem_gb=16)
H("h_linear::lin_leq_ids_3_change", "pumpkin-solver", "lin_leq", ALLO, "thorough", LIN_LEQ,
  "x1..x3: any non-empty i32 interval; c: any i32; one change (var, kind, value) symbolic; V,W",
  "n=3 DomainId terms, 0 holes, posting + 1 symbolic change + notify + propagate, unwind 10",
  covers=["propagation at posting with live witness", "propagation after a change",
          "conflict after a change"],
  full_range=True, timeout=4500, mem_gb=30)
H("h_linear::lin_leq_ids_2_holes_change", "pumpkin-solver", "lin_leq", ALLO, "thorough", LIN_LEQ,
  "x1,x2: any interval with 1 hole each; c; one symbolic change; V,W",
  "n=2, 1 hole per variable, posting + 1 change, unwind 10", full_range=True,
  covers=["propagation at posting with live witness", "propagation after a change"])
H("h_linear::lin_leq_views_pos_neg_change", "pumpkin-solver", "lin_leq", ALLO, "thorough",
  LIN_LEQ + VIEW,
  "x1,x2: any interval; views 1*x1+o1, -1*x2+o2 with any offsets whose images fit i32; c; one change",
  "n=2 AffineView<DomainId> terms (scales 1,-1), posting + 1 change, unwind 10", full_range=True,
  covers=["propagation at posting with live witness", "propagation after a change"], timeout=2400)
H("h_linear::lin_leq_views_2_m3", "pumpkin-solver", "lin_leq", ALLO, "thorough", LIN_LEQ + VIEW,
  "x1,x2: any interval with 1 hole; views 2*x1+o1, -3*x2+o2 (images fit i32); c",
  "n=2 AffineView terms (scales 2,-3), 1 hole, posting only, unwind 10", full_range=True,
  covers=["propagation at posting with live witness"], timeout=3600, mem_gb=12)
H("h_linear::lin_leq_ids_2_backtrack", "pumpkin-solver", "lin_leq", ALLO, "thorough", LIN_LEQ,
  "x1,x2 any interval; c; two symbolic changes, the first one undone by backtracking",
  "n=2, posting + change + backtrack (real synchronise of trailed state) + change, unwind 10",
  full_range=True, covers=["propagation after a change"], timeout=2400)

H("h_linear::lin_ne_ids_2", "pumpkin-solver", "lin_ne", ALLO, "thorough", LIN_NE,
  "x1,x2: any interval with 1 hole; rhs any i32; one symbolic change; V,W",
  "n=2 DomainId terms, 1 hole, posting + 1 change with notify(Assign) through the watch table",
  covers=["propagation after a change"],
  full_range=True, timeout=3600, mem_gb=24)
H("h_linear::lin_ne_ids_3", "pumpkin-solver", "lin_ne", ALLO, "thorough", LIN_NE,
  "x1..x3 any interval; rhs; two changes", "n=3, 0 holes, posting + 2 changes", full_range=True,
  covers=["propagation after a change"], timeout=3000)
H("h_linear::lin_ne_views_pos_neg", "pumpkin-solver", "lin_ne", ALLO, "thorough", LIN_NE + VIEW,
  "x1,x2 any interval; views 1*x1+o1, -1*x2+o2 (images fit i32); rhs; two changes",
  "n=2 AffineView terms, posting + 2 changes", full_range=True,
  covers=["propagation after a change"], timeout=3000)
H("h_linear::lin_ne_ids_2_backtrack", "pumpkin-solver", "lin_ne", ALLO, "quick", LIN_NE,
  "x1,x2 any interval; rhs; two changes, the first undone by backtracking",
  "n=2, posting + change + backtrack (real synchronise + notify_backtrack) + change",
  full_range=True, covers=["propagation after a change"], timeout=2400, mem_gb=14)

ABS = ["AbsoluteValuePropagator::{initialise_at_root,debug_propagate_from_scratch}"] + CTX
MAXP = ["MaximumPropagator::{initialise_at_root,debug_propagate_from_scratch}"] + CTX
MUL = ["IntegerMultiplicationPropagator::debug_propagate_from_scratch",
       "integer_multiplication::{perform_propagation,propagate_signs,div_ceil_pos}"] + CTX
DIV = ["DivisionPropagator::{initialise_at_root,debug_propagate_from_scratch}",
       "division::{perform_propagation,propagate_signs,propagate_upper_bounds,"
       "propagate_positive_domains}"] + CTX + VIEW

H("h_arith::abs_ids_full", "pumpkin-solver", "abs", ALLO, "quick", ABS,
  "signed: any interval with 1 hole; absolute: any interval; V,W", "full i32, posting only",
  full_range=True, covers=["propagation at posting with live witness"])
H("h_arith::abs_negated_view_full", "pumpkin-solver", "abs", ALLO, "thorough", ABS + VIEW,
  "signed = -x (x any interval, lb > i32::MIN); absolute any interval", "full i32, posting only",
  full_range=True, covers=["propagation at posting with live witness"])
H("h_arith::max_ids_2", "pumpkin-solver", "max", ALLO, "quick", MAXP,
  "a1,a2,rhs: any interval; V,W", "n=2, full i32, posting only", full_range=True,
  covers=["propagation at posting with live witness"], mem_gb=12)
H("h_arith::max_ids_3", "pumpkin-solver", "max", ALLO, "thorough", MAXP,
  "a1..a3,rhs any interval", "n=3, full i32, posting only", full_range=True,
  covers=["propagation at posting with live witness"], timeout=4500, mem_gb=54)
H("h_arith::min_as_negated_max_2", "pumpkin-solver", "max", ALLO, "thorough", MAXP + VIEW,
  "minimum(a1,a2)=rhs posted as maximum over scaled(-1) views; any interval with lb > i32::MIN",
  "n=2, full i32 minus i32::MIN, posting only", full_range=True,
  covers=["propagation at posting with live witness"], timeout=2400)
H("h_arith::mul_ids_64", "pumpkin-solver", "mul", ALLO, "quick", MUL,
  "a,b,c: any sub-interval of [-64,64]; V,W any i32 points", "|bounds| <= 64, posting only",
  covers=["propagation at posting with live witness"])
H("h_arith::mul_ids_1024", "pumpkin-solver", "mul", ALLO, "thorough", MUL,
  "a,b,c: any sub-interval of [-1024,1024]", "|bounds| <= 1024, posting only",
  covers=["propagation at posting with live witness"], timeout=3000)
H("h_arith::mul_ids_66000", "pumpkin-solver", "mul", ALLO, "thorough", MUL,
  "a,b,c: any sub-interval of [-66000,66000] (past the i32 product boundary 46341^2)",
  "|bounds| <= 66000, posting only", covers=["propagation at posting with live witness"], timeout=3600,
  full_range=True)
H("h_arith::div_ids_64", "pumpkin-solver", "div", ALLO, "quick", DIV,
  "numerator, denominator (0 excluded), rhs: any sub-interval of [-64,64]; V,W any i32 points",
  "|bounds| <= 64, posting only", covers=["propagation at posting with live witness"])
H("h_arith::div_ids_1024", "pumpkin-solver", "div", ALLO, "thorough", DIV,
  "any sub-interval of [-1024,1024]", "|bounds| <= 1024, posting only",
  covers=["propagation at posting with live witness"], timeout=3000)

ELEM = ["ElementPropagator::{initialise_at_root,debug_propagate_from_scratch,lazy_explanation,"
        "propagate_index_bounds_within_array,propagate_rhs_bounds_based_on_array,"
        "propagate_index_based_on_domain_intersection_with_rhs,propagate_equality}",
        "RightHandSideReason bitfield", "StoredReason::DynamicLazy resolution"] + CTX
H("h_element::element_1", "pumpkin-solver", "element", ALLO, "quick", ELEM,
  "x1,rhs: any i32 interval; index: any sub-interval of [-2,2]; V,W",
  "array length 1, posting (1 propagate call), lazy reasons resolved at propagation time and "
  "again in the final state, unwind 3",
  covers=[], full_range=True, timeout=3000, mem_gb=30)
H("h_element::element_1_reach", "pumpkin-solver", "element", ALLO, "quick", ELEM,
  "concrete domains x1 in [3,5], index in [-1,2], rhs in [0,10]; V,W symbolic",
  "vacuity witness of element_1 / element_2: the cover points the symbolic harnesses cannot "
  "afford (one SAT call each on the full formula)",
  covers=["propagation at posting with live witness", "lazy reason resolved"], timeout=900,
  mem_gb=6)
H("h_element::element_2", "pumpkin-solver", "element", ALLO, "thorough", ELEM,
  "x1,x2,rhs: any i32 interval; index: any sub-interval of [-2,3]; V,W",
  "array length 2, posting (1 propagate call), lazy reasons resolved at propagation time and "
  "again in the final state, unwind 4",
  covers=[], full_range=True, timeout=3000, mem_gb=40)
H("h_element::element_2_index_hole", "pumpkin-solver", "element", ALLO, "thorough", ELEM,
  "as element_2 with 1 hole in the index domain", "array length 2, posting, 1 hole",
  covers=["propagation at posting with live witness", "lazy reason resolved"], full_range=True, timeout=3600,
  mem_gb=40)
H("h_element::element_2_change", "pumpkin-solver", "element", ALLO, "thorough", ELEM,
  "as element_2 + one symbolic change", "array length 2, posting + 1 change",
  covers=["propagation at posting with live witness", "lazy reason resolved"], full_range=True, timeout=3600,
  mem_gb=45)

REIF = ["ReifiedPropagator::{new,initialise_at_root,notify,notify_backtrack,synchronise,"
        "propagate,propagate_reification,map_propagation_status,filter_enqueue_decision,"
        "find_inconsistency}", "PropagationContextMut::{with_reification,build_reason,"
        "assign_literal}", "Literal::{get_true_predicate,get_false_predicate}"]
H("h_reified::reified_leq_1_change", "pumpkin-solver", "reified", ALLO, "quick",
  REIF + LIN_LEQ,
  "x1 any interval; r in {free,true,false}; c; one symbolic change (to r or x1); V,W",
  "r -> x1<=c, posting + 1 change with notify through the watch table", full_range=True,
  covers=["propagation at posting with live witness", "propagation after a change"], timeout=3000, mem_gb=20)
H("h_reified_ne::reified_ne_1_change", "pumpkin-solver", "reified", ALLO, "quick",
  REIF + LIN_NE,
  "x1 any interval; r in {free,true,false}; c any i32; one symbolic change (to r or x1); V,W",
  "r -> x1 != c, posting + 1 change with notify through the watch table, unwind 4",
  full_range=True, covers=[], timeout=2400, mem_gb=20)
WRAP = REIF + ["inner propagator: harness-defined model `UpperBoundModel` (x1 <= c, implements "
              "detect_inconsistency) - the generic wrapper is the code under test"]
H("h_wrapper::wrapper_interrupted", "pumpkin-solver", "reified", ALLO, "quick", WRAP,
  "x1 any interval; r in {free,true,false}; c any i32; two symbolic changes (to r or x1); V,W",
  "ReifiedPropagator<UpperBoundModel>: posting, first change notified (notify may cache an "
  "inconsistency) but propagation interrupted, backtrack to the root (real synchronise), second "
  "change notified, propagate", full_range=True,
  covers=["change notified, propagation interrupted", "propagation after the backtrack"],
  timeout=2400, mem_gb=12, only_props=["C09", "C17", "C02"])
H("h_wrapper::wrapper_change", "pumpkin-solver", "reified", ALLO, "thorough", WRAP,
  "x1 any interval; r in {free,true,false}; c any i32; one symbolic change; V,W",
  "ReifiedPropagator<UpperBoundModel>: posting + 1 change with notify through the watch table",
  full_range=True, timeout=3000, mem_gb=12, only_props=["C09", "C17", "C02"])
H("h_wrapper::wrapper_backtrack", "pumpkin-solver", "reified", ALLO, "thorough", WRAP,
  "x1 any interval; r in {free,true,false}; c any i32; two symbolic changes; V,W",
  "ReifiedPropagator<UpperBoundModel>: posting, change, propagate, backtrack (real synchronise), "
  "second change, propagate", full_range=True, timeout=4000, mem_gb=16,
  only_props=["C09", "C17", "C02"])
H("h_reified::reified_leq_1_interrupted", "pumpkin-solver", "reified", ALLO, "thorough",
  REIF + LIN_LEQ,
  "x1 any interval; r in {free,true,false}; c; two symbolic changes; V,W",
  "r -> x1<=c: posting, change notified but propagation interrupted, backtrack (real "
  "synchronise), second change notified, propagate", full_range=True,
  covers=["change notified, propagation interrupted", "propagation after the backtrack"],
  timeout=4500, mem_gb=30)
H("h_reified::reified_leq_1_backtrack", "pumpkin-solver", "reified", ALLO, "thorough",
  REIF + LIN_LEQ,
  "as above; two changes, the first undone by backtracking (cached inconsistency cleared by "
  "the real synchronise)", "r -> x1<=c, posting + change + backtrack + change", full_range=True,
  covers=["propagation after a change"], timeout=4500, mem_gb=50)
H("h_reified::reified_leq_2_change", "pumpkin-solver", "reified", ALLO, "thorough",
  REIF + LIN_LEQ,
  "x1,x2 any interval; r in {free,true,false}; c; one symbolic change (to r or a variable); V,W",
  "r -> x1+x2<=c, posting + 1 change with notify through the watch table", full_range=True,
  covers=["propagation at posting with live witness", "propagation after a change"], timeout=4500, mem_gb=54)
H("h_reified::reified_leq_2_backtrack", "pumpkin-solver", "reified", ALLO, "thorough",
  REIF + LIN_LEQ,
  "as above; two changes, the first undone by backtracking (cached inconsistency cleared by "
  "the real synchronise)", "posting + change + backtrack + change", full_range=True,
  covers=["propagation after a change"], timeout=3000)
H("h_reified::reified_ne_2_changes", "pumpkin-solver", "reified", ALLO, "thorough",
  REIF + LIN_NE, "x1,x2 any interval; r; rhs; two symbolic changes",
  "r -> x1+x2!=rhs, posting + 2 changes", full_range=True,
  covers=["propagation after a change"], timeout=3000)

# ---- C18: selectors ---------------------------------------------------------------------------
BR_STUBS = STUBS_S[:1] + ["Random (trait object) -> AnyRandom: arbitrary value inside the "
                          "requested range (contract of Random)"]
SEL_CTX = ["SelectionContext::{lower_bound,upper_bound,contains,get_size_of_domain,"
           "is_integer_fixed,random}", "Assignments::evaluate_predicate"]
for _name, _sel, _width in [
    ("value_in_domain_min", "InDomainMin", None), ("value_in_domain_max", "InDomainMax", None),
    ("value_in_domain_split", "InDomainSplit", None),
    ("value_in_domain_split_random", "InDomainSplitRandom", None),
    ("value_reverse_in_domain_split", "ReverseInDomainSplit", None),
    ("value_out_domain_min", "OutDomainMin", None), ("value_out_domain_max", "OutDomainMax", None),
    ("value_random_splitter", "RandomSplitter", None),
    ("value_in_domain_median", "InDomainMedian", 5), ("value_in_domain_middle", "InDomainMiddle", 5),
    ("value_in_domain_random", "InDomainRandom", 5),
    ("value_in_domain_interval", "InDomainInterval", 5),
    ("value_out_domain_median", "OutDomainMedian", 5),
    ("value_out_domain_random", "OutDomainRandom", 5),
]:
    H("h_branching::" + _name, "pumpkin-solver", "branching", ["K-branch", "O7"], "quick",
      ["<%s as ValueSelector<DomainId>>::select_value" % _sel] + SEL_CTX,
      "one unfixed domain: " + ("any i32 interval" if _width is None else
                                "any window of at most %d values" % _width) +
      " with 2 holes; random source arbitrary",
      ("full i32 width" if _width is None else "domain width <= %d" % _width) + ", 2 holes",
      timeout=900, mem_gb=6, stubs=BR_STUBS, only_props=["C18"], full_range=_width is None)
H("h_branching::value_in_domain_random_literal", "pumpkin-solver", "branching",
  ["K-branch", "O7"], "quick", ["<InDomainRandom as ValueSelector<Literal>>::select_value"],
  "a free literal; random source arbitrary", "0-1 domain", timeout=900, mem_gb=6,
  stubs=BR_STUBS, only_props=["C18"])
for _name, _sel in [
    ("variable_input_order", "InputOrder"), ("variable_smallest", "Smallest"),
    ("variable_largest", "Largest"), ("variable_first_fail", "FirstFail"),
    ("variable_anti_first_fail", "AntiFirstFail"), ("variable_max_regret", "MaxRegret"),
    ("variable_occurrence", "Occurrence"), ("variable_random", "RandomSelector"),
    ("variable_proportional_domain_size", "ProportionalDomainSize"),
    ("variable_smallest_random_tie_breaker", "Smallest + RandomTieBreaker"),
]:
    H("h_branching::" + _name, "pumpkin-solver", "branching", ["K-branch", "O7"], "quick",
      ["<%s as VariableSelector<DomainId>>::select_variable" % _sel,
       "InOrderTieBreaker / RandomTieBreaker"] + SEL_CTX,
      "3 variables, each any i32 interval (any subset fixed); random source arbitrary",
      "3 variables, full i32 width, no holes", timeout=900, mem_gb=6, stubs=BR_STUBS,
      only_props=["C18"], full_range=True)

# ---- C08: cumulative, profile-local kernels -------------------------------------------------------
CUM = ["time_table_util::find_possible_updates (+ can_be_updated_by_profile, "
       "lower/upper_bound_can_be_propagated_by_profile, has_mandatory_part_in_interval)",
       "CumulativePropagationHandler::{propagate_lower_bound_with_explanations,"
       "propagate_upper_bound_with_explanations,propagate_holes_in_domain}",
       "explanations::{naive,big_step,pointwise}::*"] + CTX
CUM_IN = ("1-2 profile tasks + the propagated task: start times any sub-interval of [-2,3], "
          "durations 1-2, usages 1-4, capacity 0-6, profile [start,end] any window; assumption: "
          "every profile task has a mandatory part covering the profile (validity of the profile)")
for _n, _tier, _mem, _to in [
    ("cumulative_pointwise_1", "quick", 16, 2400),
    ("cumulative_pointwise_1_holes", "quick", 16, 2400),
    ("cumulative_naive_1", "thorough", 40, 3600),
    ("cumulative_big_step_1", "thorough", 40, 3600),
    ("cumulative_big_step_1_holes", "thorough", 50, 3600),
    ("cumulative_pointwise_2", "thorough", 30, 3600),
]:
    _holes = _n.endswith("_holes")
    H("h_cumulative::" + _n, "pumpkin-solver", "cumulative", ["O1", "O2", "O3", "O4", "O7"], _tier,
      CUM, CUM_IN if not _holes else CUM_IN.replace("durations 1-2", "durations 1-3") +
      "; allow_holes_in_domain: the removed range starts at the task's lower bound or has at most "
      "2 values (capacity of the shadow store)",
      "one (profile, task) step of propagate_single_profiles; time points -2..%d; "
      "unwind 10" % (5 if _holes else 4), timeout=_to, mem_gb=_mem, only_props=["C08"],
      covers=["hole update possible", "propagation"] if _holes else
      ["lower bound update possible", "propagation"])
for _n in ("cumulative_conflict_naive_2", "cumulative_conflict_big_step_2",
           "cumulative_conflict_pointwise_2"):
    H("h_cumulative::" + _n, "pumpkin-solver", "cumulative", ["O2", "O4", "O7"], "quick",
      ["propagation_handler::create_conflict_explanation",
       "explanations::{naive,big_step,pointwise}::create_*_conflict_explanation"],
      "2 profile tasks with mandatory parts covering the profile, height > capacity; V any point",
      "time points -2..4, durations 1-2", timeout=900, mem_gb=4, only_props=["C08"],
      covers=["overloaded valid profile"])
for _n in ("time_table_from_events_1", "time_table_from_events_2",
           "time_table_from_events_2_conflicts"):
    H("h_timetable::" + _n, "pumpkin-solver", "cumulative", ["K-timetable", "O2", "O4", "O7"],
      "thorough", ["time_table_over_interval::create_time_table_from_events (through the hook "
                   "verif_time_table_from_events)", "create_conflict_explanation"],
      "1-2 tasks: start times any sub-interval of [-2,2], durations 1-2, usages 1-4, capacity; "
      "events of the mandatory parts in the order create_events documents",
      "time points -2..3; unwind 4-6", timeout=3000, mem_gb=56, only_props=["C08"])
H("h_cumulative::cumulative_create_tasks_filters", "pumpkin-solver", "cumulative",
  ["K-tasks", "O7"], "quick", ["cumulative::utils::util::create_tasks"],
  "3 tasks with durations and usages in 0..3", "3 tasks", timeout=900, mem_gb=4,
  only_props=["C08"])

# ---- kernels ----------------------------------------------------------------------------------
H("h_kernels::predicate_negation", "pumpkin-solver", "kernels", ["K-pred"], "quick",
  ["<Predicate as Not>::not"], "any predicate kind, any i32 constant, any point",
  "full i32; [x>=i32::MIN] / [x<=i32::MAX] excluded (no representable negation)", timeout=600,
  mem_gb=4, stubs=[], only_props=["C02", "C05"], full_range=True)
H("h_kernels::predicate_mutual_exclusion", "pumpkin-solver", "kernels", ["K-pred"], "quick",
  ["Predicate::is_mutually_exclusive_with"], "two predicates (same or different variable), any "
  "constants, any point", "full i32", timeout=600, mem_gb=4, stubs=[],
  only_props=["C02", "C05"], full_range=True)
H("h_kernels::predicate_mutual_exclusion_is_complete_for_one_variable", "pumpkin-solver",
  "kernels", ["K-pred"], "quick", ["Predicate::is_mutually_exclusive_with"],
  "two predicates over one variable of the kinds the function handles, any constants",
  "full i32", timeout=600, mem_gb=4, stubs=[], only_props=["C05"], full_range=True)
H("h_kernels::solution_values", "pumpkin-solver", "kernels", ["K-sol"], "quick",
  ["ProblemSolution::{get_integer_value,get_literal_value}", "AffineView::{lower_bound,"
   "upper_bound}", "Literal::{get_true_predicate,not}"],
  "x any i32, b in {0,1}; view scale in {1,-1,2,-3}, any offset with representable image",
  "full i32", timeout=600, mem_gb=4, only_props=["C01"], full_range=True)
H("h_kernels::blocking_clause_removes_exactly_one_solution", "pumpkin-solver", "kernels",
  ["K-block"], "quick", ["solution_iterator::get_blocking_clause", "Solution::{get_domains,"
                          "get_integer_value}", "Assignments::get_domains"],
  "a full assignment s of 4 variables (any i32 values) and any other point", "4 variables, "
  "full i32", timeout=600, mem_gb=4, only_props=["C03"], full_range=True)
H("h_kernels::blocking_clause_conflicts_with_the_solution_state", "pumpkin-solver", "kernels",
  ["K-block"], "quick", ["solution_iterator::get_blocking_clause",
                          "Assignments::evaluate_predicate", "Predicate::get_domain"],
  "a full assignment s of 4 variables (any i32 values)", "4 variables, full i32", timeout=600,
  mem_gb=4, only_props=["C03"], full_range=True)
H("h_kernels::post_predicate_fails_iff_falsified", "pumpkin-solver", "kernels", ["K-assume"],
  "quick", ["Assignments::{post_predicate,evaluate_predicate}"],
  "any domain with 1 hole, any predicate, any value x", "full i32, 1 hole (+1 made by the post)", timeout=600,
  mem_gb=4, only_props=["C05", "C12"], full_range=True)

# ---- E2 replay targets doubling as Kani harnesses (differential check of the two engines) ------
for _n in ("e2_div_floor", "e2_div_ceil", "e2_view_lower_bound_predicate",
           "e2_view_upper_bound_predicate", "e2_view_map"):
    H("h_e2::" + _n, "pumpkin-solver", "e2-kani", ["K-view", "K-round", "O7"], "thorough",
      ["<i32 as NumExt>::{div_ceil,div_floor}", "AffineView::{lower_bound_predicate,"
       "upper_bound_predicate,lower_bound,upper_bound,map,invert}"],
      "a,b / scale,offset,value,x: any i32 under the documented preconditions", "full i32",
      timeout=3000, mem_gb=8, only_props=["C12", "C16"], full_range=True)

# ---- drcp-format -------------------------------------------------------------------------------
DR_STUBS = ["S4 alloc::fmt::format -> empty string (error messages only)"]
H("h_atomic::int_atomic_negation", "drcp-format", "drcp", ["K-atomic", "O7"], "quick",
  ["<IntAtomicConstraint as Not>::not"], "any comparison, any i64 value, any i64 point",
  "full i64", timeout=600, mem_gb=4, stubs=DR_STUBS, only_props=["C19"], full_range=True)
H("h_atomic::bool_and_wrapped_atomic_negation", "drcp-format", "drcp", ["K-atomic", "O7"],
  "quick", ["<BoolAtomicConstraint as Not>::not", "<AtomicConstraint as Not>::not"],
  "any bool atomic; any int atomic with value strictly inside the i64 range", "full i64 minus "
  "the two boundary constants", timeout=600, mem_gb=4, stubs=DR_STUBS, only_props=["C19"])
# The writer-only / reader-only step harnesses (harness/drcp_format/h_steps.rs) are NOT registered:
# measured under Kani 0.68, `writer_nogood` runs out of memory in propositional reduction
# (core::fmt machinery) and `reader_nogood` grows past 48 GB after 30 min (nom combinators), on an
# otherwise idle machine. They remain as native replay targets; the round trip is outside C19's
# claim (DESIGN.md §9.5).

# ---- DIMACS ------------------------------------------------------------------------------------
DI = ["DimacsParser::{parse_chunk,start_literal,finish_literal,finish_clause,complete}"]
for _n, _tier, _what in [
    ("dimacs_step_line_start", "quick", "at the start of a line"),
    ("dimacs_step_comment", "quick", "inside a comment"),
    ("dimacs_step_between", "quick", "between tokens"),
    ("dimacs_step_minus", "quick", "a '-' has been read"),
    ("dimacs_step_pos_1", "quick", "inside a positive 1-digit token"),
    ("dimacs_step_neg_1", "quick", "inside a negative 1-digit token"),
    ("dimacs_step_pos_2", "quick", "inside a positive 2-digit token"),
    ("dimacs_step_neg_2", "thorough", "inside a negative 2-digit token"),
    ("dimacs_step_pos_3", "thorough", "inside a positive 3-digit token"),
    ("dimacs_step_neg_3", "thorough", "inside a negative 3-digit token"),
]:
    H(_n, "dimacs", "dimacs", ["K-dimacs", "O7"], _tier, DI,
      "arbitrary valid parser state of shape '%s' (symbolic digits, 0-1 pending literals, <= 5 "
      "emitted clauses) + one arbitrary byte (all 256 values)" % _what,
      "one inductive step; header state and 'p' at line start excluded", timeout=2400,
      mem_gb=14, stubs=[], only_props=["C14"],
      covers=[] if _n == "dimacs_step_comment" else ["rejecting step"])
H("dimacs_complete", "dimacs", "dimacs", ["K-dimacs", "O7"], "quick", DI,
  "arbitrary valid parser state + arbitrary declared clause count <= 6", "complete() only",
  timeout=1800, mem_gb=12, stubs=[], only_props=["C14"])


# property -> what is claimed (filled as harness families are added)
PROPERTY_TAGS = {
    "C03": ["K-block"],
    "C05": ["K-pred", "K-assume"],
    "C14": ["K-dimacs", "O7"],
    "C18": ["K-branch", "O7"],
    "C19": ["K-atomic", "K-write", "K-read", "O7"],
    # which tags count as a violation of the property when they fail in a harness serving it
    "C01": ["O5", "K-sol"],
    "C02": ["O1", "O2", "O3", "K-pred"],
    "C06": ["O2", "O3"],
    "C12": ["O1", "K-view", "K-round", "K-assume"],
    "C16": ["O7", "O1", "O2", "O3", "K-view", "K-round"],
    "C17": ["O1", "O2", "O3", "O4"],
    "C08": ["O1", "O2", "O3", "O4", "O7", "K-tasks", "K-timetable"],
    "C09": ["O1", "O2", "O3", "O4", "O5"],
}


# Harnesses that exist in harness/ but are not registered in any tier: each was started at least
# once and either ran out of memory (limit given) or was not affordable to validate within this
# machine's budget. They can be run by hand (bin/kani1.sh); nothing is claimed from them.
UNREGISTERED = {
    "h_timetable::time_table_from_events_1": "one task, two events: 590 k program steps, CBMC "
        "reaches 56 GB after 20 min in propositional reduction (Vec<ResourceProfile> with cloned "
        "Vec<Rc<Task>>, Vec::remove, Rc drops); the harness body runs natively (it confirmed "
        "defect 11 and its repair)",
    "h_timetable::time_table_from_events_2": "not run (the one-task instance is out of memory)",
    "h_timetable::time_table_from_events_2_conflicts": "not run (as above)",
    "h_cumulative::cumulative_naive_1": "CBMC runs out of memory under a 40 GB cap (the naive "
        "explanation collects one predicate per profile task into a Vec under symbolic control)",
    "h_cumulative::cumulative_big_step_1": "CBMC runs out of memory under a 40 GB cap",
    "h_linear::lin_ne_ids_2": "with an initial hole the symbolic removal plus the propagator's own "
        "removal need 3 holes per variable and the shadow store has 2 (the harness stops with "
        "'hole capacity exceeded'); the scenario without initial holes is lin_ne_ids_2_backtrack",
    "h_e2::e2_div_floor": "CaDiCaL does not finish the 32-bit division circuit within 3000 s; "
        "the same function is decided at full width by E2 (MIR->SMT, integer encoding)",
    "h_e2::e2_div_ceil": "as e2_div_floor",
    "h_e2::e2_view_lower_bound_predicate": "as e2_div_floor (invert divides by the scale)",
    "h_e2::e2_view_upper_bound_predicate": "as e2_div_floor (invert divides by the scale)",
    "h_linear::lin_leq_ids_3_change": "no verdict after 2400 s (3.7 M variables, 21 M clauses)",
    "h_linear::lin_ne_ids_3": "out of memory at 22 GB",
    "h_linear::lin_ne_views_pos_neg": "out of memory at 22 GB",
    "h_arith::min_as_negated_max_2": "not validated (maximum with 2 variables already needs 7.7 GB)",
    "h_arith::mul_ids_66000": "not validated (|v| <= 1024 takes 850 s)",
    "h_element::element_2_index_hole": "not validated (element_2 needs > 22 GB for its cover queries)",
    "h_element::element_2_change": "not validated",
    "h_reified::reified_leq_2_change": "11 M variables, 60 M clauses; out of memory",
    "h_reified::reified_leq_1_backtrack": "out of memory at 50 GB",
    "h_reified::reified_leq_1_interrupted": "finishes (15 min) but its counterexamples do not "
        "reproduce natively: Kani 0.68 reports spurious invalid-pointer / unreachable-code "
        "failures once the code under test has freed a vector (the wrapper drops its cached "
        "inconsistency in synchronise) - an encoding problem, so the harness is not used",
    "h_element::element_1": "326 of 1795 checks undecided: out of memory at 40 GB",
    "h_element::element_1_reach": "spurious rust_dealloc layout failures on the concrete twin "
        "(same Kani problem with freed vectors)",
    "h_element::element_2": "out of memory (element_1 already is)",
    "h_reified::reified_leq_2_backtrack": "out of memory at 22 GB",
    "h_reified::reified_ne_2_changes": "out of memory at 22 GB",
    "h_cumulative::cumulative_big_step_1_holes": "not validated (big_step_1 exceeds 28 GB)",
}
for _name in UNREGISTERED:
    HARNESSES.pop(_name, None)

# properties that are served only by harnesses naming them explicitly
KERNEL_ONLY_PROPS = ("C03", "C04", "C05", "C08", "C14", "C18", "C19")


def harnesses_for(prop, tier):
    """Harnesses whose obligations are evidence for `prop` in the given tier
    (thorough includes quick)."""
    out = []
    for h in HARNESSES.values():
        if tier == "quick" and h["tier"] != "quick":
            continue
        if h["only_props"] is not None:
            if prop in h["only_props"]:
                out.append(h)
            continue
        if prop in KERNEL_ONLY_PROPS:
            continue
        tags = set(PROPERTY_TAGS.get(prop, []))
        if prop == "C16" and not h["full_range"]:
            # range-limited harnesses are evidence for C16 only through O7 (no panic in range)
            tags = {"O7"}
        if prop in ("C08",) and h["family"] not in ("cumulative",):
            continue
        if prop in ("C09",) and h["family"] not in ("reified",):
            continue
        if tags & set(h["tags"]):
            out.append(h)
    return out
