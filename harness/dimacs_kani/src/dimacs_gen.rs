//! This module provides parsers for the DIMACS CNF and WCNF file formats. Given that DIMACS files
//! can be very large, the implementation is designed to read the file in chunks. The parser also
//! will not allocate for every encountered clause, but rather re-use its buffers.
//!
//! To invoke the parser, there are two options:
//!  - For a CNF file, the [`parse_cnf`] function can be called,
//!  - For a WCNF file, the [`parse_wcnf`] function can be called.
//!
//! Both these functions operate on a type that implements the [`DimacsSink`] trait, which is
//! serves as an interface between the consumer of the parsed contents of the file.
//!
//! It should be noted that the parsers should not be used as DIMACS validators. Even though they
//! should only accept valid DIMACS files, the errors are not extremely detailed. Perhaps this
//! could change over time, however.
use std::io::BufRead;
use std::io::BufReader;
use std::io::Read;
use std::num::NonZeroI32;
use std::num::NonZeroU32;
use std::str::FromStr;

use pumpkin_solver::options::SolverOptions;
use pumpkin_solver::variables::Literal;
use pumpkin_solver::Function;
use pumpkin_solver::Solver;
use thiserror::Error;

/// A dimacs sink stores a set of clauses and allows for new variables to be created.
pub(crate) trait DimacsSink {
    /// The arguments to the dimacs sink.
    type ConstructorArgs;

    /// Create an empty formula.
    fn empty(args: Self::ConstructorArgs, num_variables: usize) -> Self;

    /// Add a new hard clause to the formula. Consistency does not have to be checked at every
    /// insertion. As such, after the formula is constructed from the file format, consistency
    /// needs to be evaluated if appropriate.
    fn add_hard_clause(&mut self, clause: &[NonZeroI32]);

    /// Add a new soft clause to the formula. This supports non-unit soft clauses, and returns the
    /// literal which can be used in the objective function.
    fn add_soft_clause(&mut self, weight: NonZeroU32, clause: &[NonZeroI32]);
}

#[derive(Debug, Error)]
pub(crate) enum DimacsParseError {
    #[error("failed to read file")]
    Io(#[from] std::io::Error),

    #[error("missing dimacs header")]
    MissingHeader,

    #[error("'{0}' is an invalid header")]
    InvalidHeader(String),

    #[error("multiple dimacs headers found")]
    DuplicateHeader,

    #[error("unexpected character '{0}'")]
    UnexpectedCharacter(char),

    #[error("'{0}' is an invalid DIMACS literal")]
    InvalidLiteral(String),

    #[error("the last clause in the source is not terminated with a '0'")]
    UnterminatedClause,

    #[error("expected to parse {expected} clauses, but parsed {parsed}")]
    IncorrectClauseCount { expected: usize, parsed: usize },
}

pub(crate) fn parse_cnf<Sink: DimacsSink>(
    source: impl Read,
    sink_constructor_args: Sink::ConstructorArgs,
) -> Result<Sink, DimacsParseError> {
    let mut reader = BufReader::new(source);
    let mut parser =
        DimacsParser::<Sink, _, CNFHeader>::new(sink_constructor_args, |sink, clause, _| {
            sink.add_hard_clause(clause);
        });

    loop {
        let num_bytes = {
            let data = reader.fill_buf()?;

            if data.is_empty() {
                return parser.complete();
            }

            parser.parse_chunk(data)?;
            data.len()
        };

        reader.consume(num_bytes);
    }
}

pub(crate) fn parse_wcnf<Sink: DimacsSink>(
    source: impl Read,
    sink_constructor_args: Sink::ConstructorArgs,
) -> Result<Sink, DimacsParseError> {
    let mut reader = BufReader::new(source);
    let mut parser =
        DimacsParser::<Sink, _, WCNFHeader>::new(sink_constructor_args, |sink, clause, header| {
            let weight: NonZeroU32 = clause[0].try_into().unwrap();

            if u64::from(weight.get()) == header.top_weight {
                sink.add_hard_clause(&clause[1..]);
            } else {
                sink.add_soft_clause(weight, &clause[1..]);
            }
        });

    loop {
        let num_bytes = {
            let data = reader.fill_buf()?;

            if data.is_empty() {
                let formula = parser.complete()?;
                return Ok(formula);
            }

            parser.parse_chunk(data)?;
            data.len()
        };

        reader.consume(num_bytes);
    }
}

/// The core DIMACS parser. New clauses are not directly added to the sink, but rather a callback
/// `OnClause` is used. This allows the WCNF and CNF parser to reuse the same logic.
struct DimacsParser<Sink: DimacsSink, OnClause, Header> {
    sink_constructor_args: Option<Sink::ConstructorArgs>,
    sink: Option<Sink>,
    header: Option<Header>,
    buffer: String,
    clause: Vec<NonZeroI32>,
    state: ParseState,
    on_clause: OnClause,
    parsed_clauses: usize,
}

enum ParseState {
    StartLine,
    Header,
    Comment,
    Literal,
    NegativeLiteral,
    Clause,
}

impl<Sink, OnClause, Header> DimacsParser<Sink, OnClause, Header>
where
    OnClause: FnMut(&mut Sink, &[NonZeroI32], &Header),
    Sink: DimacsSink,
    Header: DimacsHeader,
{
    /// Construct a new DIMACS parser based on the sink constructor arguments and the callback to
    /// be executed when a clause is completely parsed.
    fn new(sink_constructor_args: Sink::ConstructorArgs, on_clause: OnClause) -> Self {
        DimacsParser {
            sink_constructor_args: Some(sink_constructor_args),
            sink: None,
            header: None,
            buffer: String::new(),
            clause: vec![],
            state: ParseState::StartLine,
            on_clause,
            parsed_clauses: 0,
        }
    }

    /// Parse the next chunk of bytes. This may start in the middle of parsing a clause or file
    /// header, and may end in such a state as well.
    fn parse_chunk(&mut self, chunk: &[u8]) -> Result<(), DimacsParseError> {
        for byte in chunk {
            match self.state {
                ParseState::StartLine => match byte {
                    b if b.is_ascii_whitespace() => {} // Continue consuming whitespace.

                    b'p' => {
                        self.state = ParseState::Header;
                        self.buffer.clear();
                        self.buffer.push('p');
                    }

                    b'c' => {
                        self.state = ParseState::Comment;
                    }

                    b @ b'1'..=b'9' => {
                        self.start_literal(b, true);
                    }

                    // covers the exotic case of having an empty clause in the dimacs file
                    b'0' => self.finish_clause()?,

                    b'-' => self.start_literal(&b'-', false),

                    b => return Err(DimacsParseError::UnexpectedCharacter(*b as char)),
                },

                ParseState::Header => match byte {
                    b'\n' => {
                        self.init_formula()?;
                        self.state = ParseState::StartLine;
                    }

                    b => self.buffer.push(*b as char),
                },

                ParseState::Comment => {
                    // Ignore all other bytes until we find a new-line, at which point the comment
                    // ends.
                    if *byte == b'\n' {
                        self.state = ParseState::StartLine;
                    }
                }

                ParseState::Literal => match byte {
                    b if b.is_ascii_whitespace() => {
                        self.finish_literal()?;

                        // A line break ends the literal like any other whitespace, but it also
                        // starts a new line, on which a comment may follow.
                        if *b == b'\n' {
                            self.state = ParseState::StartLine;
                        }
                    }

                    b @ b'0'..=b'9' => self.buffer.push(*b as char),

                    b => return Err(DimacsParseError::UnexpectedCharacter(*b as char)),
                },

                ParseState::NegativeLiteral => match byte {
                    b @ b'1'..=b'9' => {
                        self.buffer.push(*b as char);
                        self.state = ParseState::Literal;
                    }

                    b => return Err(DimacsParseError::UnexpectedCharacter(*b as char)),
                },

                ParseState::Clause => match byte {
                    b'0' => self.finish_clause()?,

                    // When a new-line is encountered, it does not mean the clause is terminated.
                    // We switch to the StartLine state to handle comments and leading whitespace.
                    // However, the clause buffer is not cleared so the clause that is being parsed
                    // is kept in-memory and will continue to be parsed as soon as a literal is
                    // encountered.
                    b'\n' => self.state = ParseState::StartLine,
                    b if b.is_ascii_whitespace() => {} // Ignore whitespace.

                    b @ b'1'..=b'9' => self.start_literal(b, true),
                    b'-' => self.start_literal(&b'-', false),

                    b => return Err(DimacsParseError::UnexpectedCharacter(*b as char)),
                },
            }
        }

        Ok(())
    }

    fn start_literal(&mut self, b: &u8, is_positive: bool) {
        self.state = if is_positive {
            ParseState::Literal
        } else {
            ParseState::NegativeLiteral
        };

        self.buffer.clear();
        self.buffer.push(*b as char);
    }

    fn complete(self) -> Result<Sink, DimacsParseError> {
        let sink = self.sink.ok_or(DimacsParseError::MissingHeader)?;
        let header = self
            .header
            .expect("if sink is present then header is present");

        if !self.clause.is_empty() {
            Err(DimacsParseError::UnterminatedClause)
        } else if header.num_clauses() != self.parsed_clauses {
            Err(DimacsParseError::IncorrectClauseCount {
                expected: header.num_clauses(),
                parsed: self.parsed_clauses,
            })
        } else {
            Ok(sink)
        }
    }

    fn init_formula(&mut self) -> Result<(), DimacsParseError> {
        let header = self.buffer.trim().parse::<Header>()?;

        self.sink = Some(Sink::empty(
            self.sink_constructor_args
                .take()
                .ok_or(DimacsParseError::DuplicateHeader)?,
            header.num_variables(),
        ));

        self.header = Some(header);

        Ok(())
    }

    fn finish_literal(&mut self) -> Result<(), DimacsParseError> {
        let dimacs_code = self
            .buffer
            .parse::<i32>()
            .map_err(|_| DimacsParseError::InvalidLiteral(self.buffer.clone()))?;

        let literal = NonZeroI32::new(dimacs_code).expect("cannot be 0 here");
        self.clause.push(literal);
        self.state = ParseState::Clause;

        Ok(())
    }

    fn finish_clause(&mut self) -> Result<(), DimacsParseError> {
        let sink = self.sink.as_mut().ok_or(DimacsParseError::MissingHeader)?;
        let header = self
            .header
            .as_ref()
            .expect("header is set when the sink is created");

        self.parsed_clauses += 1;
        (self.on_clause)(sink, &self.clause, header);
        self.clause.clear();

        Ok(())
    }
}

trait DimacsHeader: FromStr<Err = DimacsParseError> {
    fn num_variables(&self) -> usize;
    fn num_clauses(&self) -> usize;
}

struct WCNFHeader {
    num_variables: usize,
    num_clauses: usize,
    top_weight: u64,
}

struct CNFHeader {
    num_variables: usize,
    num_clauses: usize,
}

impl FromStr for WCNFHeader {
    type Err = DimacsParseError;

    fn from_str(s: &str) -> Result<Self, Self::Err> {
        if !s.starts_with("p wcnf ") {
            return Err(DimacsParseError::InvalidHeader(s.to_owned()));
        }

        let mut components = s.trim().split(' ').skip(2);

        let num_variables = next_header_component::<usize>(&mut components, s)?;
        let num_clauses = next_header_component::<usize>(&mut components, s)?;
        let top_weight = next_header_component::<u64>(&mut components, s)?;

        if components.next().is_some() {
            return Err(DimacsParseError::InvalidHeader(s.to_owned()));
        }

        Ok(Self {
            num_variables,
            num_clauses,
            top_weight,
        })
    }
}

impl FromStr for CNFHeader {
    type Err = DimacsParseError;

    fn from_str(s: &str) -> Result<Self, Self::Err> {
        if !s.starts_with("p cnf ") {
            return Err(DimacsParseError::InvalidHeader(s.to_owned()));
        }

        let mut components = s.trim().split(' ').skip(2);

        let num_variables = next_header_component::<usize>(&mut components, s)?;
        let num_clauses = next_header_component::<usize>(&mut components, s)?;

        if components.next().is_some() {
            return Err(DimacsParseError::InvalidHeader(s.to_owned()));
        }

        Ok(Self {
            num_variables,
            num_clauses,
        })
    }
}

impl DimacsHeader for CNFHeader {
    fn num_variables(&self) -> usize {
        self.num_variables
    }

    fn num_clauses(&self) -> usize {
        self.num_clauses
    }
}

impl DimacsHeader for WCNFHeader {
    fn num_variables(&self) -> usize {
        self.num_variables
    }

    fn num_clauses(&self) -> usize {
        self.num_clauses
    }
}

fn next_header_component<'a, Num: FromStr>(
    components: &mut impl Iterator<Item = &'a str>,
    header: &str,
) -> Result<Num, DimacsParseError> {
    components
        .next()
        .ok_or_else(|| DimacsParseError::InvalidHeader(header.to_owned()))?
        .parse::<Num>()
        .map_err(|_| DimacsParseError::InvalidHeader(header.to_owned()))
}

/// A dimacs sink that creates a fresh [`Solver`] when reading DIMACS files.
pub(crate) struct SolverDimacsSink {
    pub(crate) solver: Solver,
    pub(crate) objective: Function,
    pub(crate) variables: Vec<Literal>,
}

/// The arguments to construct a [`Solver`]. Forwarded to
/// [`Solver::with_options()`].
pub(crate) struct SolverArgs {
    // todo: add back the learning options
    solver_options: SolverOptions,
}

impl SolverArgs {
    pub(crate) fn new(solver_options: SolverOptions) -> SolverArgs {
        SolverArgs { solver_options }
    }
}

impl SolverDimacsSink {
    fn mapped_clause(&self, clause: &[NonZeroI32]) -> Vec<Literal> {
        clause
            .iter()
            .map(|dimacs_code| {
                if dimacs_code.is_positive() {
                    self.variables[dimacs_code.unsigned_abs().get() as usize - 1]
                } else {
                    !self.variables[dimacs_code.unsigned_abs().get() as usize - 1]
                }
            })
            .collect()
    }
}

impl DimacsSink for SolverDimacsSink {
    type ConstructorArgs = SolverArgs;

    fn empty(args: Self::ConstructorArgs, num_variables: usize) -> Self {
        let SolverArgs { solver_options } = args;

        let mut solver = Solver::with_options(solver_options);
        let variables = (0..num_variables)
            .map(|code| solver.new_named_literal(format!("{}", code + 1)))
            .collect::<Vec<_>>();

        SolverDimacsSink {
            solver,
            objective: Function::default(),
            variables,
        }
    }

    fn add_hard_clause(&mut self, clause: &[NonZeroI32]) {
        let mapped = self
            .mapped_clause(clause)
            .into_iter()
            .map(|literal| literal.get_true_predicate());
        let _ = self.solver.add_clause(mapped);
    }

    fn add_soft_clause(&mut self, weight: NonZeroU32, clause: &[NonZeroI32]) {
        let mut clause = self.mapped_clause(clause);

        let is_clause_satisfied = clause
            .iter()
            .any(|literal| self.solver.get_literal_value(*literal).unwrap_or(false));

        if clause.is_empty() {
            // The soft clause is violated at the root level.
            self.objective.add_constant_term(weight.get().into());
        } else if is_clause_satisfied {
            // The soft clause is satisfied at the root level and may be ignored.
        } else if clause.len() == 1 {
            self.objective
                .add_weighted_literal(clause[0], weight.get().into());
        } else {
            // General case, a soft clause with more than one literal.
            let soft_literal = self.solver.new_literal();
            clause.push(soft_literal);
            let _ = self.solver.add_clause(
                clause
                    .into_iter()
                    .map(|literal| literal.get_true_predicate()),
            );

            self.objective
                .add_weighted_literal(!soft_literal, weight.get().into());
        }
    }
}

// ===============================================================================================
// Harness tail appended by /verif/lib/gen_dimacs.py (child module: sees the private parser).
// One inductive step of the byte-level state machine from an arbitrary valid parser state,
// checked against a reference automaton for DIMACS bodies (DESIGN.md §4 C14).
// ===============================================================================================
pub(crate) mod verif {
    use super::*;
    #[cfg(not(kani))]
    use crate::kani;

    const MAXLITS: usize = 2;

    /// Recording sink on fixed arrays.
    pub(crate) struct RecSink {
        hard: usize,
        soft: usize,
        last: [i32; MAXLITS],
        last_len: usize,
        last_weight: u32,
    }

    impl DimacsSink for RecSink {
        type ConstructorArgs = ();

        fn empty(_: (), _: usize) -> Self {
            RecSink { hard: 0, soft: 0, last: [0; MAXLITS], last_len: 0, last_weight: 0 }
        }

        fn add_hard_clause(&mut self, clause: &[NonZeroI32]) {
            self.hard += 1;
            self.record(clause);
        }

        fn add_soft_clause(&mut self, weight: NonZeroU32, clause: &[NonZeroI32]) {
            self.soft += 1;
            self.last_weight = weight.get();
            self.record(clause);
        }
    }

    impl RecSink {
        fn record(&mut self, clause: &[NonZeroI32]) {
            assert!(clause.len() <= MAXLITS, "[HARNESS] clause longer than MAXLITS");
            self.last_len = clause.len();
            let mut i = 0;
            while i < MAXLITS {
                if i < clause.len() {
                    self.last[i] = clause[i].get();
                }
                i += 1;
            }
        }
    }

    fn on_hard(sink: &mut RecSink, clause: &[NonZeroI32], _: &CNFHeader) {
        sink.add_hard_clause(clause);
    }

    /// The abstract state of the reference automaton.
    #[derive(Clone, Copy, PartialEq, Eq, Debug)]
    enum Mode {
        /// at the start of a line (possibly after leading blanks), not inside a token
        LineStart,
        /// inside a comment line
        Comment,
        /// between tokens, not at the start of a line
        Between,
        /// a '-' has been read, a digit 1-9 must follow
        Minus,
        /// inside a literal token: sign and the value read so far
        Token { negative: bool, value: i32, digits: u8 },
    }

    #[derive(Clone, Copy, PartialEq, Eq, Debug)]
    struct Abstract {
        mode: Mode,
        pending: [i32; MAXLITS],
        pending_len: usize,
        emitted: usize,
        last: [i32; MAXLITS],
        last_len: usize,
    }

    fn is_blank(b: u8) -> bool {
        // Rust's `is_ascii_whitespace`: space, tab, line feed, form feed, carriage return
        b == b' ' || b == b'\t' || b == b'\n' || b == 0x0c || b == b'\r'
    }

    /// Reference automaton for DIMACS clause bodies, written from the format definition:
    /// tokens are separated by blanks; a line break is a blank that also starts a new line; a
    /// comment line starts with 'c' where a line starts; `0` terminates a clause; anything else
    /// is an error. `None` = the input is rejected.
    fn delta(pre: &Abstract, b: u8) -> Option<Abstract> {
        let mut post = *pre;
        match pre.mode {
            Mode::Comment => {
                if b == b'\n' {
                    post.mode = Mode::LineStart;
                }
                Some(post)
            }
            Mode::Minus => {
                if (b'1'..=b'9').contains(&b) {
                    post.mode = Mode::Token { negative: true, value: (b - b'0') as i32, digits: 1 };
                    Some(post)
                } else {
                    None
                }
            }
            Mode::Token { negative, value, digits } => {
                if b.is_ascii_digit() {
                    post.mode = Mode::Token {
                        negative,
                        value: value * 10 + (b - b'0') as i32,
                        digits: digits + 1,
                    };
                    Some(post)
                } else if is_blank(b) {
                    post.pending[post.pending_len] = if negative { -value } else { value };
                    post.pending_len += 1;
                    post.mode = if b == b'\n' { Mode::LineStart } else { Mode::Between };
                    Some(post)
                } else {
                    None
                }
            }
            Mode::LineStart | Mode::Between => {
                if b == b'\n' {
                    post.mode = Mode::LineStart;
                    Some(post)
                } else if is_blank(b) {
                    Some(post)
                } else if b == b'c' && pre.mode == Mode::LineStart {
                    post.mode = Mode::Comment;
                    Some(post)
                } else if (b'1'..=b'9').contains(&b) {
                    post.mode = Mode::Token { negative: false, value: (b - b'0') as i32, digits: 1 };
                    Some(post)
                } else if b == b'-' {
                    post.mode = Mode::Minus;
                    Some(post)
                } else if b == b'0' {
                    post.emitted += 1;
                    post.last = pre.pending;
                    post.last_len = pre.pending_len;
                    post.pending_len = 0;
                    Some(post)
                } else {
                    None
                }
            }
        }
    }

    type Parser = DimacsParser<RecSink, fn(&mut RecSink, &[NonZeroI32], &CNFHeader), CNFHeader>;

    /// Build a real parser in the concrete state described by `a` (representation invariant of
    /// each `ParseState`: Literal = optional '-', a digit 1-9, more digits; NegativeLiteral = "-").
    /// The *shape* of the token buffer (sign, number of digits) is concrete per harness, so that
    /// the buffer is built by unconditional pushes; its digits are symbolic.
    fn concretise(a: &Abstract) -> Parser {
        let mut buffer = String::new();
        let state = match a.mode {
            Mode::LineStart => ParseState::StartLine,
            Mode::Comment => ParseState::Comment,
            Mode::Between => ParseState::Clause,
            Mode::Minus => {
                buffer.push('-');
                ParseState::NegativeLiteral
            }
            Mode::Token { negative, value, digits } => {
                if negative {
                    buffer.push('-');
                }
                if digits == 3 {
                    buffer.push((b'0' + (value / 100) as u8) as char);
                }
                if digits >= 2 {
                    buffer.push((b'0' + ((value / 10) % 10) as u8) as char);
                }
                buffer.push((b'0' + (value % 10) as u8) as char);
                ParseState::Literal
            }
        };
        let mut clause = Vec::with_capacity(MAXLITS + 1);
        if a.pending_len >= 1 {
            clause.push(NonZeroI32::new(a.pending[0]).unwrap());
        }
        DimacsParser {
            sink_constructor_args: None,
            sink: Some(RecSink {
                hard: a.emitted,
                soft: 0,
                last: a.last,
                last_len: a.last_len,
                last_weight: 0,
            }),
            header: Some(CNFHeader { num_variables: 1000, num_clauses: 0 }),
            buffer,
            clause,
            state,
            on_clause: on_hard,
            parsed_clauses: a.emitted,
        }
    }

    /// Abstraction of the real parser state; `None` if the representation invariant is broken.
    fn abstraction(p: &Parser) -> Option<Abstract> {
        let bytes = p.buffer.as_bytes();
        let mode = match p.state {
            ParseState::StartLine => Mode::LineStart,
            ParseState::Comment => Mode::Comment,
            ParseState::Clause => Mode::Between,
            ParseState::Header => return None,
            ParseState::NegativeLiteral => {
                if bytes.len() != 1 || bytes[0] != b'-' {
                    return None;
                }
                Mode::Minus
            }
            ParseState::Literal => {
                let negative = bytes.len() > 0 && bytes[0] == b'-';
                let start = if negative { 1 } else { 0 };
                let digits = bytes.len() - start;
                if digits == 0 || digits > 4 {
                    return None;
                }
                let mut value: i32 = 0;
                let mut i = 0;
                while i < 4 {
                    if i < digits {
                        let d = bytes[start + i];
                        if !d.is_ascii_digit() || (i == 0 && d == b'0') {
                            return None;
                        }
                        value = value * 10 + (d - b'0') as i32;
                    }
                    i += 1;
                }
                Mode::Token { negative, value, digits: digits as u8 }
            }
        };
        let sink = p.sink.as_ref()?;
        if p.clause.len() > MAXLITS {
            return None;
        }
        let mut pending = [0; MAXLITS];
        let mut i = 0;
        while i < MAXLITS {
            if i < p.clause.len() {
                pending[i] = p.clause[i].get();
            }
            i += 1;
        }
        Some(Abstract {
            mode,
            pending,
            pending_len: p.clause.len(),
            emitted: sink.hard,
            last: sink.last,
            last_len: sink.last_len,
        })
    }

    /// The shape of the pre-state is concrete per harness: one of the three token-free modes,
    /// "-" read, or inside a token with a concrete (sign, number of digits).
    #[derive(Clone, Copy)]
    enum Shape {
        /// 0 = line start, 1 = inside a comment, 2 = between tokens
        NoToken(u8),
        Minus,
        Token { negative: bool, digits: u8 },
    }

    fn any_abstract(shape: Shape) -> Abstract {
        let mode = match shape {
            Shape::NoToken(kind) => match kind {
                0 => Mode::LineStart,
                1 => Mode::Comment,
                _ => Mode::Between,
            },
            Shape::Minus => Mode::Minus,
            Shape::Token { negative, digits } => {
                let value: i32 = kani::any();
                kani::assume(match digits {
                    1 => value >= 1 && value <= 9,
                    2 => value >= 10 && value <= 99,
                    _ => value >= 100 && value <= 999,
                });
                Mode::Token { negative, value, digits }
            }
        };
        let pending_len: usize = kani::any();
        kani::assume(pending_len <= 1);
        let pending: [i32; MAXLITS] = kani::any();
        kani::assume(pending[0] != 0 && pending[1] != 0);
        let emitted: usize = kani::any();
        kani::assume(emitted <= 5);
        Abstract { mode, pending, pending_len, emitted, last: [0; MAXLITS], last_len: 0 }
    }

    fn same_clause(a: &[i32; MAXLITS], la: usize, b: &[i32; MAXLITS], lb: usize) -> bool {
        if la != lb {
            return false;
        }
        let mut i = 0;
        let mut same = true;
        while i < MAXLITS {
            if i < la && a[i] != b[i] {
                same = false;
            }
            i += 1;
        }
        same
    }

    fn step(shape: Shape) {
        let pre = any_abstract(shape);
        let byte: u8 = kani::any();
        // the header line is outside the claim
        kani::assume(!(byte == b'p' && pre.mode == Mode::LineStart));
        let mut parser = concretise(&pre);
        let result = parser.parse_chunk(&[byte]);
        let expected = delta(&pre, byte);
        kani::cover!(result.is_err(), "rejecting step");
        kani::cover!(matches!(pre.mode, Mode::Token { .. }) && byte == b'\n', "token ended by a line break");
        match (&result, expected) {
            (Ok(()), Some(post)) => {
                let got = abstraction(&parser);
                assert!(got.is_some(), "[K-dimacs] the parser left its representation invariant");
                let got = got.unwrap();
                assert!(got.mode == post.mode, "[K-dimacs] parser state after the byte differs from the reference automaton (layout sensitivity)");
                assert!(same_clause(&got.pending, got.pending_len, &post.pending, post.pending_len), "[K-dimacs] pending clause differs from the reference automaton");
                assert!(got.emitted == post.emitted, "[K-dimacs] number of emitted clauses differs from the reference automaton");
                if post.emitted != pre.emitted {
                    assert!(same_clause(&got.last, got.last_len, &post.last, post.last_len), "[K-dimacs] emitted clause differs from the reference automaton");
                }
                assert!(parser.parsed_clauses == post.emitted, "[K-dimacs] clause counter differs from the number of emitted clauses");
            }
            (Err(_), None) => {}
            (Ok(()), None) => assert!(false, "[K-dimacs] the parser accepts a byte the format does not allow here"),
            (Err(_), Some(_)) => assert!(false, "[K-dimacs] the parser rejects a byte the format allows here (layout sensitivity)"),
        }
        core::mem::forget(result);
        core::mem::forget(parser);
    }

    macro_rules! step_harness {
        ($name:ident, $shape:expr) => {
            #[cfg_attr(kani, kani::proof)]
            #[cfg_attr(kani, kani::unwind(6))]
            pub(crate) fn $name() {
                step($shape);
            }
        };
    }
    step_harness!(dimacs_step_line_start, Shape::NoToken(0));
    step_harness!(dimacs_step_comment, Shape::NoToken(1));
    step_harness!(dimacs_step_between, Shape::NoToken(2));
    step_harness!(dimacs_step_minus, Shape::Minus);
    step_harness!(dimacs_step_pos_1, Shape::Token { negative: false, digits: 1 });
    step_harness!(dimacs_step_neg_1, Shape::Token { negative: true, digits: 1 });
    step_harness!(dimacs_step_pos_2, Shape::Token { negative: false, digits: 2 });
    step_harness!(dimacs_step_neg_2, Shape::Token { negative: true, digits: 2 });
    step_harness!(dimacs_step_pos_3, Shape::Token { negative: false, digits: 3 });
    step_harness!(dimacs_step_neg_3, Shape::Token { negative: true, digits: 3 });

    /// `complete()` from an arbitrary state: an unterminated clause or a wrong clause count is an
    /// error, everything else yields the sink.
    #[cfg_attr(kani, kani::proof)]
    #[cfg_attr(kani, kani::unwind(6))]
    pub(crate) fn dimacs_complete() {
        let kind: u8 = kani::any();
        kani::assume(kind < 3);
        let pre = any_abstract(Shape::NoToken(kind));
        let declared: usize = kani::any();
        kani::assume(declared <= 6);
        let mut parser = concretise(&pre);
        parser.header = Some(CNFHeader { num_variables: 1000, num_clauses: declared });
        let result = parser.complete();
        let should_fail = pre.pending_len > 0 || declared != pre.emitted;
        assert!(result.is_err() == should_fail, "[K-dimacs] complete() accepts an unterminated clause / wrong clause count, or rejects a complete formula");
        core::mem::forget(result);
    }

    #[cfg(not(kani))]
    pub fn replay_entry(harness: &str, values: Vec<Vec<u8>>) -> i32 {
        let function: fn() = match harness {
            "dimacs_step_line_start" => dimacs_step_line_start,
            "dimacs_step_comment" => dimacs_step_comment,
            "dimacs_step_between" => dimacs_step_between,
            "dimacs_step_minus" => dimacs_step_minus,
            "dimacs_step_pos_1" => dimacs_step_pos_1,
            "dimacs_step_neg_1" => dimacs_step_neg_1,
            "dimacs_step_pos_2" => dimacs_step_pos_2,
            "dimacs_step_neg_2" => dimacs_step_neg_2,
            "dimacs_step_pos_3" => dimacs_step_pos_3,
            "dimacs_step_neg_3" => dimacs_step_neg_3,
            "dimacs_complete" => dimacs_complete,
            _ => {
                eprintln!("[REPLAY] unknown harness {harness}");
                return 4;
            }
        };
        kani::load(values);
        std::panic::set_hook(Box::new(|info| {
            let payload = info.payload();
            if payload.downcast_ref::<kani::AssumptionViolated>().is_some()
                || payload.downcast_ref::<kani::OutOfValues>().is_some()
            {
                return;
            }
            let message = payload
                .downcast_ref::<&str>()
                .map(|s| s.to_string())
                .or_else(|| payload.downcast_ref::<String>().cloned())
                .unwrap_or_else(|| "<non-string panic payload>".to_string());
            let location = info
                .location()
                .map(|l| format!("{}:{}:{}", l.file(), l.line(), l.column()))
                .unwrap_or_default();
            println!("REPLAY-PANIC location={location} message={message}");
        }));
        let outcome = std::panic::catch_unwind(function);
        let (used, available) = kani::consumed();
        println!("REPLAY-VALUES used={used} available={available}");
        match outcome {
            Ok(()) => {
                println!("REPLAY-RESULT completed");
                0
            }
            Err(payload) => {
                if payload.downcast_ref::<kani::AssumptionViolated>().is_some()
                    || payload.downcast_ref::<kani::OutOfValues>().is_some()
                {
                    println!("REPLAY-RESULT assumption-violated");
                    3
                } else {
                    println!("REPLAY-RESULT reproduced");
                    1
                }
            }
        }
    }
}
