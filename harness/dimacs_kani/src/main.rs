// Native replay: dimacs-replay <harness> <hex,hex,...>
fn main() {
    let args: Vec<String> = std::env::args().collect();
    if args.len() != 3 {
        eprintln!("usage: dimacs-replay <harness> <hex[,hex...]>");
        std::process::exit(4);
    }
    let values: Vec<Vec<u8>> = args[2]
        .split(',')
        .filter(|s| !s.is_empty())
        .map(|h| {
            (0..h.len())
                .step_by(2)
                .map(|i| u8::from_str_radix(&h[i..i + 2], 16).expect("hex"))
                .collect()
        })
        .collect();
    std::process::exit(dimacs_kani::replay_entry(&args[1], values));
}
