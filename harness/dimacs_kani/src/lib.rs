// Out-of-tree crate for the DIMACS parser, which lives in the *binary* target of pumpkin-solver
// and is private to its file. `dimacs_gen.rs` is regenerated on every run by
// /verif/lib/gen_dimacs.py = the current /repo/.../parsers/dimacs.rs + the harness tail
// (tail.rs) appended as a child module, so that the harness sees the private parser state.
#![allow(warnings)]

#[cfg(not(kani))]
pub mod kani {
    include!(concat!(env!("PUMPKIN_VERIF_HARNESS"), "/pumpkin_solver/native_kani.rs"));
}

mod dimacs_gen;

#[cfg(not(kani))]
pub use dimacs_gen::verif::replay_entry;
