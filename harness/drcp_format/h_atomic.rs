// K-atomic: negation of atomic constraints (DESIGN.md §4 C19).
#[cfg(not(kani))]
use super::kani;

use crate::AtomicConstraint;
use crate::BoolAtomicConstraint;
use crate::Comparison;
use crate::IntAtomicConstraint;

fn any_comparison() -> Comparison {
    let k: u8 = kani::any();
    kani::assume(k < 4);
    match k {
        0 => Comparison::GreaterThanEqual,
        1 => Comparison::LessThanEqual,
        2 => Comparison::Equal,
        _ => Comparison::NotEqual,
    }
}

fn holds(a: &IntAtomicConstraint<u32>, x: i64) -> bool {
    match a.comparison {
        Comparison::GreaterThanEqual => x >= a.value,
        Comparison::LessThanEqual => x <= a.value,
        Comparison::Equal => x == a.value,
        Comparison::NotEqual => x != a.value,
    }
}

verif_harness! {
    #[kani::unwind(2)]
    fn int_atomic_negation() {
        let comparison = any_comparison();
        let value: i64 = kani::any();
        let name: u32 = kani::any();
        let x: i64 = kani::any();
        let a = IntAtomicConstraint { name, comparison, value };
        let not_a = !a.clone();
        assert!(
            holds(&not_a, x) != holds(&a, x),
            "[K-atomic] the negation of an integer atomic constraint is not its complement"
        );
        let back = !not_a;
        assert!(
            back == a,
            "[K-atomic] negating an integer atomic constraint twice does not give the original"
        );
    }
}

verif_harness! {
    #[kani::unwind(2)]
    fn bool_and_wrapped_atomic_negation() {
        let name: u32 = kani::any();
        let value: bool = kani::any();
        let b = BoolAtomicConstraint { name, value };
        let not_b = !b.clone();
        assert!(not_b.value != b.value && not_b.name == b.name,
            "[K-atomic] the negation of a boolean atomic constraint is not its complement");
        assert!(!not_b == b,
            "[K-atomic] negating a boolean atomic constraint twice does not give the original");
        // the enum wrapper forwards to the right variant
        let comparison = any_comparison();
        let v: i64 = kani::any();
        // the two boundary constants at which the integer negation itself is undefined are the
        // subject of `int_atomic_negation`
        kani::assume(v > i64::MIN && v < i64::MAX);
        let wrapped = AtomicConstraint::Int(IntAtomicConstraint { name, comparison, value: v });
        assert!(!!wrapped.clone() == wrapped,
            "[K-atomic] negating a wrapped atomic constraint twice does not give the original");
        let wrapped_bool = AtomicConstraint::Bool(BoolAtomicConstraint { name, value });
        assert!(!!wrapped_bool.clone() == wrapped_bool,
            "[K-atomic] negating a wrapped boolean constraint twice does not give the original");
        assert!(matches!(!wrapped_bool, AtomicConstraint::Bool(_)),
            "[K-atomic] negation changes the kind of the atomic constraint");
    }
}
