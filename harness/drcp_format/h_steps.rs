// Writer-only and reader-only obligations against one shared shape table (DESIGN.md §4 C19):
//   W: the bytes produced by the real step serialisers equal the line the documented grammar
//      prescribes for the step;
//   R: the real line parser maps that line back to the step.
// The reference line is produced by `render` below (a transcription of the documented grammar,
// not of either implementation). Numbers are symbolic with 1-2 decimal digits.
#[cfg(not(kani))]
use super::kani;

use std::io::Write;
use std::num::NonZero;
use std::num::NonZeroI32;
use std::num::NonZeroU64;

use crate::steps::Conclusion;
use crate::steps::Deletion;
use crate::steps::Inference;
use crate::steps::Nogood;
use crate::steps::Step;

const CAP: usize = 40;

pub(crate) struct FixedSink {
    pub(crate) buf: [u8; CAP],
    pub(crate) len: usize,
}

impl Write for FixedSink {
    fn write(&mut self, data: &[u8]) -> std::io::Result<usize> {
        let mut i = 0;
        while i < data.len() {
            assert!(self.len < CAP, "[HARNESS] sink capacity exceeded");
            self.buf[self.len] = data[i];
            self.len += 1;
            i += 1;
        }
        Ok(data.len())
    }

    fn flush(&mut self) -> std::io::Result<()> {
        Ok(())
    }
}

fn push(out: &mut FixedSink, byte: u8) {
    assert!(out.len < CAP, "[HARNESS] reference line capacity exceeded");
    out.buf[out.len] = byte;
    out.len += 1;
}

fn push_str(out: &mut FixedSink, s: &[u8]) {
    let mut i = 0;
    while i < s.len() {
        push(out, s[i]);
        i += 1;
    }
}

/// decimal rendering of 1..=99
fn push_unsigned(out: &mut FixedSink, v: u64) {
    if v >= 10 {
        push(out, b'0' + (v / 10) as u8);
    }
    push(out, b'0' + (v % 10) as u8);
}

fn push_literal(out: &mut FixedSink, v: i32) {
    if v < 0 {
        push(out, b'-');
    }
    push_unsigned(out, v.unsigned_abs() as u64);
}

fn any_id() -> u64 {
    let v: u64 = kani::any();
    kani::assume(v >= 1 && v <= 99);
    v
}

fn any_literal() -> i32 {
    let v: i32 = kani::any();
    kani::assume(v != 0 && v >= -99 && v <= 99);
    v
}

fn lit(v: i32) -> NonZeroI32 {
    NonZeroI32::new(v).unwrap()
}

fn same(a: &FixedSink, b: &FixedSink) -> bool {
    if a.len != b.len {
        return false;
    }
    let mut i = 0;
    let mut equal = true;
    while i < CAP {
        if i < a.len && a.buf[i] != b.buf[i] {
            equal = false;
        }
        i += 1;
    }
    equal
}

fn as_line(sink: &FixedSink) -> &str {
    // the parser is given the line without its terminator, as `next_step` does after `trim`
    let end = if sink.len > 0 && sink.buf[sink.len - 1] == b'\n' { sink.len - 1 } else { sink.len };
    core::str::from_utf8(&sink.buf[..end]).expect("[HARNESS] reference line is ASCII")
}

// ---------------------------------------------------------------------------------------------
// nogood: `n <id> <lit>* [0 <hint>*]`
// ---------------------------------------------------------------------------------------------
struct NogoodShape {
    id: u64,
    nlits: usize,
    lits: [i32; 2],
    hints: Option<usize>,
    hint_ids: [u64; 2],
}

fn any_nogood() -> NogoodShape {
    let id = any_id();
    let nlits: usize = kani::any();
    kani::assume(nlits <= 2);
    let lits = [any_literal(), any_literal()];
    let has_hints: bool = kani::any();
    let nhints: usize = kani::any();
    kani::assume(nhints <= 2);
    let hint_ids = [any_id(), any_id()];
    NogoodShape { id, nlits, lits, hints: if has_hints { Some(nhints) } else { None }, hint_ids }
}

fn render_nogood(s: &NogoodShape) -> FixedSink {
    let mut out = FixedSink { buf: [0; CAP], len: 0 };
    push_str(&mut out, b"n ");
    push_unsigned(&mut out, s.id);
    let mut i = 0;
    while i < 2 {
        if i < s.nlits {
            push(&mut out, b' ');
            push_literal(&mut out, s.lits[i]);
        }
        i += 1;
    }
    if let Some(nhints) = s.hints {
        push_str(&mut out, b" 0");
        let mut i = 0;
        while i < 2 {
            if i < nhints {
                push(&mut out, b' ');
                push_unsigned(&mut out, s.hint_ids[i]);
            }
            i += 1;
        }
    }
    push(&mut out, b'\n');
    out
}

fn build_nogood(s: &NogoodShape) -> Nogood<Vec<NonZeroI32>, Vec<NonZeroU64>> {
    let mut literals = Vec::new();
    let mut i = 0;
    while i < 2 {
        if i < s.nlits {
            literals.push(lit(s.lits[i]));
        }
        i += 1;
    }
    let hints = s.hints.map(|nhints| {
        let mut hints = Vec::new();
        let mut i = 0;
        while i < 2 {
            if i < nhints {
                hints.push(NonZeroU64::new(s.hint_ids[i]).unwrap());
            }
            i += 1;
        }
        hints
    });
    Nogood { id: NonZeroU64::new(s.id).unwrap(), literals, hints }
}

verif_harness! {
    #[kani::unwind(6)]
    fn writer_nogood() {
        let shape = any_nogood();
        let expected = render_nogood(&shape);
        let mut sink = FixedSink { buf: [0; CAP], len: 0 };
        let result = crate::writer::verif::write_nogood(build_nogood(&shape), &mut sink);
        assert!(result.is_ok(), "[K-write] writing a nogood step failed");
        assert!(same(&sink, &expected), "[K-write] nogood step is not written as `n <id> <lits> [0 <hints>]`");
        core::mem::forget(result);
    }
}

verif_harness! {
    #[kani::unwind(6)]
    fn reader_nogood() {
        let shape = any_nogood();
        let line = render_nogood(&shape);
        let parsed = crate::reader::verif_proof_step(as_line(&line));
        kani::cover!(shape.nlits == 0 && shape.hints.is_none(), "empty nogood without hints");
        match parsed {
            Ok((_, Step::Nogood(nogood))) => {
                let expected = build_nogood(&shape);
                assert!(nogood.id == expected.id, "[K-read] nogood id is not read back");
                assert!(nogood.literals == expected.literals, "[K-read] nogood literals are not read back");
                assert!(nogood.hints == expected.hints, "[K-read] nogood hints are not read back");
                core::mem::forget(nogood);
                core::mem::forget(expected);
            }
            Ok(_) => assert!(false, "[K-read] a nogood line is read as another kind of step"),
            Err(e) => {
                core::mem::forget(e);
                assert!(false, "[K-read] a nogood line the writer can produce is rejected by the reader");
            }
        }
    }
}

// ---------------------------------------------------------------------------------------------
// inference: `i <id> <premise>* [0 <propagated>] [c:<constraint>] [l:<label>]`
// ---------------------------------------------------------------------------------------------
struct InferenceShape {
    id: u64,
    npremises: usize,
    premises: [i32; 2],
    propagated: Option<i32>,
    constraint: Option<u32>,
    label: Option<u8>,
}

const LABELS: [&str; 2] = ["a", "l_1"];

fn any_inference() -> InferenceShape {
    let id = any_id();
    let npremises: usize = kani::any();
    kani::assume(npremises <= 2);
    let premises = [any_literal(), any_literal()];
    let has_propagated: bool = kani::any();
    let propagated = any_literal();
    let has_constraint: bool = kani::any();
    let constraint = any_id() as u32;
    let label: u8 = kani::any();
    kani::assume(label <= 2);
    InferenceShape {
        id,
        npremises,
        premises,
        propagated: if has_propagated { Some(propagated) } else { None },
        constraint: if has_constraint { Some(constraint) } else { None },
        label: if label < 2 { Some(label) } else { None },
    }
}

fn render_inference(s: &InferenceShape) -> FixedSink {
    let mut out = FixedSink { buf: [0; CAP], len: 0 };
    push_str(&mut out, b"i ");
    push_unsigned(&mut out, s.id);
    let mut i = 0;
    while i < 2 {
        if i < s.npremises {
            push(&mut out, b' ');
            push_literal(&mut out, s.premises[i]);
        }
        i += 1;
    }
    if let Some(p) = s.propagated {
        push_str(&mut out, b" 0 ");
        push_literal(&mut out, p);
    }
    if let Some(c) = s.constraint {
        push_str(&mut out, b" c:");
        push_unsigned(&mut out, c as u64);
    }
    if let Some(l) = s.label {
        push_str(&mut out, b" l:");
        push_str(&mut out, LABELS[l as usize].as_bytes());
    }
    push(&mut out, b'\n');
    out
}

fn build_inference(s: &InferenceShape) -> Inference<'static, Vec<NonZeroI32>, NonZeroI32> {
    let mut premises = Vec::new();
    let mut i = 0;
    while i < 2 {
        if i < s.npremises {
            premises.push(lit(s.premises[i]));
        }
        i += 1;
    }
    Inference {
        id: NonZeroU64::new(s.id).unwrap(),
        hint_constraint_id: s.constraint.map(|c| NonZero::new(c).unwrap()),
        hint_label: s.label.map(|l| LABELS[l as usize]),
        premises,
        propagated: s.propagated.map(lit),
    }
}

verif_harness! {
    #[kani::unwind(6)]
    fn writer_inference() {
        let shape = any_inference();
        let expected = render_inference(&shape);
        let mut sink = FixedSink { buf: [0; CAP], len: 0 };
        let result = crate::writer::verif::write_inference(build_inference(&shape), &mut sink);
        assert!(result.is_ok(), "[K-write] writing an inference step failed");
        assert!(same(&sink, &expected), "[K-write] inference step is not written as `i <id> <premises> [0 <propagated>] [c:<tag>] [l:<label>]`");
        core::mem::forget(result);
    }
}

verif_harness! {
    #[kani::unwind(6)]
    fn reader_inference() {
        let shape = any_inference();
        let line = render_inference(&shape);
        let parsed = crate::reader::verif_proof_step(as_line(&line));
        kani::cover!(shape.npremises == 0 && shape.propagated.is_some(), "inference without premises");
        match parsed {
            Ok((_, Step::Inference(inference))) => {
                let expected = build_inference(&shape);
                assert!(inference.id == expected.id, "[K-read] inference id is not read back");
                assert!(inference.premises == expected.premises, "[K-read] inference premises are not read back");
                assert!(inference.propagated == expected.propagated, "[K-read] inference conclusion is not read back");
                assert!(inference.hint_constraint_id == expected.hint_constraint_id, "[K-read] inference constraint tag is not read back");
                assert!(inference.hint_label == expected.hint_label, "[K-read] inference label is not read back");
                core::mem::forget(inference);
                core::mem::forget(expected);
            }
            Ok(_) => assert!(false, "[K-read] an inference line is read as another kind of step"),
            Err(e) => {
                core::mem::forget(e);
                assert!(false, "[K-read] an inference line the writer can produce is rejected by the reader");
            }
        }
    }
}

// ---------------------------------------------------------------------------------------------
// deletion `d <id>` and conclusion `c UNSAT` / `c <literal>`
// ---------------------------------------------------------------------------------------------
verif_harness! {
    #[kani::unwind(6)]
    fn deletion_and_conclusion() {
        let id = any_id();
        let mut expected = FixedSink { buf: [0; CAP], len: 0 };
        push_str(&mut expected, b"d ");
        push_unsigned(&mut expected, id);
        push(&mut expected, b'\n');
        let mut sink = FixedSink { buf: [0; CAP], len: 0 };
        let result = crate::writer::verif::write_deletion(Deletion::new(NonZeroU64::new(id).unwrap()), &mut sink);
        assert!(result.is_ok() && same(&sink, &expected), "[K-write] deletion step is not written as `d <id>`");
        core::mem::forget(result);
        match crate::reader::verif_proof_step(as_line(&expected)) {
            Ok((_, Step::Delete(deletion))) => assert!(deletion.id.get() == id, "[K-read] deletion id is not read back"),
            _ => assert!(false, "[K-read] a deletion line is not read back as a deletion"),
        }

        let optimal: bool = kani::any();
        let bound = any_literal();
        let mut expected = FixedSink { buf: [0; CAP], len: 0 };
        push_str(&mut expected, b"c ");
        if optimal {
            push_literal(&mut expected, bound);
        } else {
            push_str(&mut expected, b"UNSAT");
        }
        push(&mut expected, b'\n');
        let conclusion = if optimal { Conclusion::Optimal(lit(bound)) } else { Conclusion::Unsatisfiable };
        let mut sink = FixedSink { buf: [0; CAP], len: 0 };
        let result = crate::writer::verif::write_conclusion(conclusion, &mut sink);
        assert!(result.is_ok() && same(&sink, &expected), "[K-write] conclusion is not written as `c UNSAT` / `c <literal>`");
        core::mem::forget(result);
        match crate::reader::verif_proof_step(as_line(&expected)) {
            Ok((_, Step::Conclusion(read))) => assert!(read == conclusion, "[K-read] conclusion is not read back"),
            _ => assert!(false, "[K-read] a conclusion line is not read back as a conclusion"),
        }
    }
}
