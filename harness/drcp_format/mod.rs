// Out-of-tree harnesses for drcp-format (hook at the end of drcp-format/src/lib.rs).

#[cfg(not(kani))]
pub fn replay_entry(harness: &str, _values: Vec<Vec<u8>>) -> i32 {
    eprintln!("[REPLAY] unknown drcp-format harness {harness}");
    4
}
