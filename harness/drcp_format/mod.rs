// Out-of-tree harnesses for drcp-format (hook at the end of drcp-format/src/lib.rs).
// cfg(kani): bounded model checking; cfg(pumpkin_verif): native replay of counterexamples.

#[cfg(not(kani))]
pub(crate) mod kani {
    include!(concat!(env!("PUMPKIN_VERIF_HARNESS"), "/pumpkin_solver/native_kani.rs"));
}

#[cfg(kani)]
macro_rules! verif_harness {
    ($(#[$meta:meta])* fn $name:ident() $body:block) => {
        #[kani::proof]
        $(#[$meta])*
        #[kani::stub(alloc::fmt::format, crate::verif_kani::stub_format)]
        pub(crate) fn $name() $body
    };
}
#[cfg(not(kani))]
macro_rules! verif_harness {
    ($(#[$meta:meta])* fn $name:ident() $body:block) => {
        pub(crate) fn $name() $body
    };
}

/// S4: `format!` only feeds error messages here.
pub(crate) fn stub_format(_args: core::fmt::Arguments<'_>) -> String {
    String::new()
}

pub(crate) mod h_atomic {
    include!(concat!(env!("PUMPKIN_VERIF_HARNESS"), "/drcp_format/h_atomic.rs"));
}
pub(crate) mod h_steps {
    include!(concat!(env!("PUMPKIN_VERIF_HARNESS"), "/drcp_format/h_steps.rs"));
}

#[cfg(not(kani))]
pub(crate) mod dispatch {
    include!(concat!(env!("PUMPKIN_VERIF_HARNESS"), "/drcp_format/dispatch.rs"));
}
#[cfg(not(kani))]
pub use dispatch::replay_entry;
