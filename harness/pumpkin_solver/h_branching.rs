// C18: built-in value / variable selectors propose only undecided decisions over their own
// variables, and propose nothing only when every variable is fixed (DESIGN.md §4 C18).
// The random source is a stub returning an arbitrary value inside the requested range (the
// contract of `Random`); everything else is the real code over the domain store S1.
#[cfg(not(kani))]
use super::kani;

use std::ops::Range;

use super::env::verif_harness;
use super::shadow;
use crate::basic_types::Random;
use crate::branching::tie_breaking::Direction;
use crate::branching::tie_breaking::InOrderTieBreaker;
use crate::branching::tie_breaking::RandomTieBreaker;
use crate::branching::value_selection::*;
use crate::branching::variable_selection::*;
use crate::branching::SelectionContext;
use crate::engine::predicates::predicate::Predicate;
use crate::engine::variables::DomainId;
use crate::engine::variables::Literal;

#[derive(Debug)]
pub(crate) struct AnyRandom;

impl Random for AnyRandom {
    fn generate_bool(&mut self, _probability: f64) -> bool {
        kani::any()
    }

    fn generate_usize_in_range(&mut self, range: Range<usize>) -> usize {
        assert!(range.start < range.end, "[K-branch] a selector asks the random source for a value from an empty range");
        let v: usize = kani::any();
        kani::assume(range.start <= v && v < range.end);
        v
    }

    fn generate_i32_in_range(&mut self, range: Range<i32>) -> i32 {
        assert!(range.start < range.end, "[K-branch] a selector asks the random source for a value from an empty range");
        let v: i32 = kani::any();
        kani::assume(range.start <= v && v < range.end);
        v
    }

    fn generate_f64(&mut self) -> f64 {
        let v: u16 = kani::any();
        v as f64 / 65536.0
    }

    fn get_weighted_choice(&mut self, weights: &[f64]) -> Option<usize> {
        if weights.is_empty() {
            return None;
        }
        let v: usize = kani::any();
        kani::assume(v < weights.len());
        Some(v)
    }
}

fn check_decision(p: Predicate, var: usize) {
    assert!(
        p.get_domain().id as usize == var,
        "[K-branch] the proposed decision is not over the decision variable"
    );
    assert!(
        shadow::assignments().evaluate_predicate(p).is_none(),
        "[K-branch] the proposed decision is already true or already false"
    );
}

/// One unfixed domain: full i32 width (selectors that only do arithmetic) or a window of at
/// most `width` values (selectors that walk the domain), with `holes` holes.
fn unfixed_domain(width: Option<i32>, holes: usize) {
    match width {
        None => shadow::init_any(1, holes),
        Some(w) => {
            let l: i32 = kani::any();
            let u: i32 = kani::any();
            kani::assume(l <= u && (u as i64 - l as i64) < w as i64);
            shadow::init_range(1, l, u, holes);
        }
    }
    // holes strictly outside the bounds are stale; the ones inside matter
    kani::assume(shadow::lb(1) < shadow::ub(1));
}

macro_rules! value_selector_harness {
    ($name:ident, $unwind:expr, $selector:expr, $width:expr, $holes:expr) => {
        verif_harness! {
            #[kani::unwind($unwind)]
            fn $name() {
                unfixed_domain($width, $holes);
                let mut rng = AnyRandom;
                let mut context = SelectionContext::new(shadow::assignments(), &mut rng);
                let mut selector = $selector;
                let decision = ValueSelector::<DomainId>::select_value(&mut selector, &mut context, DomainId::new(1));
                check_decision(decision, 1);
            }
        }
    };
}

// arithmetic-only selectors: full i32 width, 2 holes
value_selector_harness!(value_in_domain_min, 6, InDomainMin, None, 2);
value_selector_harness!(value_in_domain_max, 6, InDomainMax, None, 2);
value_selector_harness!(value_in_domain_split, 6, InDomainSplit, None, 2);
value_selector_harness!(value_in_domain_split_random, 6, InDomainSplitRandom, None, 2);
value_selector_harness!(value_reverse_in_domain_split, 6, ReverseInDomainSplit, None, 2);
value_selector_harness!(value_out_domain_min, 6, OutDomainMin, None, 2);
value_selector_harness!(value_out_domain_max, 6, OutDomainMax, None, 2);
value_selector_harness!(value_random_splitter, 6, RandomSplitter, None, 2);
// selectors that walk the domain: windows of at most 5 values, 2 holes
value_selector_harness!(value_in_domain_median, 8, InDomainMedian, Some(5), 2);
value_selector_harness!(value_in_domain_middle, 8, InDomainMiddle, Some(5), 2);
value_selector_harness!(value_in_domain_random, 8, InDomainRandom, Some(5), 2);
value_selector_harness!(value_in_domain_interval, 8, InDomainInterval, Some(5), 2);
value_selector_harness!(value_out_domain_median, 8, OutDomainMedian, Some(5), 2);
value_selector_harness!(value_out_domain_random, 8, OutDomainRandom, Some(5), 2);

verif_harness! {
    #[kani::unwind(6)]
    fn value_in_domain_random_literal() {
        shadow::init_range(1, 0, 1, 0);
        let mut rng = AnyRandom;
        let mut context = SelectionContext::new(shadow::assignments(), &mut rng);
        let mut selector = InDomainRandom;
        let decision = ValueSelector::<Literal>::select_value(&mut selector, &mut context, Literal::new(DomainId::new(1)));
        check_decision(decision, 1);
    }
}

// ---------------------------------------------------------------------------------------------
// variable selectors over 3 variables with arbitrary domains (any subset may be fixed)
// ---------------------------------------------------------------------------------------------
const NVARS: usize = 3;

fn three_domains() -> [DomainId; NVARS] {
    let mut i = 1;
    while i <= NVARS {
        shadow::init_any(i, 0);
        i += 1;
    }
    [DomainId::new(1), DomainId::new(2), DomainId::new(3)]
}

fn check_selection(selected: Option<DomainId>) {
    let mut any_unfixed = false;
    let mut i = 1;
    while i <= NVARS {
        any_unfixed = any_unfixed || !shadow::is_fixed(i);
        i += 1;
    }
    match selected {
        Some(variable) => {
            let d = variable.id as usize;
            assert!(d >= 1 && d <= NVARS, "[K-branch] the selected variable is not one of the selector's variables");
            assert!(!shadow::is_fixed(d), "[K-branch] a fixed variable is selected");
        }
        None => assert!(!any_unfixed, "[K-branch] no variable is selected although one is unfixed"),
    }
}

macro_rules! variable_selector_harness {
    ($name:ident, $unwind:expr, |$vars:ident| $selector:expr) => {
        verif_harness! {
            #[kani::unwind($unwind)]
            fn $name() {
                let $vars = three_domains();
                let mut rng = AnyRandom;
                let mut context = SelectionContext::new(shadow::assignments(), &mut rng);
                let mut selector = $selector;
                let selected = VariableSelector::<DomainId>::select_variable(&mut selector, &mut context);
                check_selection(selected);
                core::mem::forget(selector);
            }
        }
    };
}

variable_selector_harness!(variable_input_order, 6, |vars| InputOrder::new(&vars));
variable_selector_harness!(variable_smallest, 6, |vars| Smallest::new(&vars));
variable_selector_harness!(variable_largest, 6, |vars| Largest::new(&vars));
variable_selector_harness!(variable_first_fail, 6, |vars| FirstFail::new(&vars));
variable_selector_harness!(variable_anti_first_fail, 6, |vars| AntiFirstFail::new(&vars));
variable_selector_harness!(variable_max_regret, 6, |vars| MaxRegret::new(&vars));
variable_selector_harness!(variable_occurrence, 6, |vars| {
    let occurrences: [u32; NVARS] = kani::any();
    Occurrence::new(&vars, &occurrences)
});
// `MostConstrained::new` cannot be called from outside its module: its tie-breaker value type
// `MostConstrainedValue` is private (rustc: "type is private"), so it is outside the claim.
variable_selector_harness!(variable_random, 6, |vars| RandomSelector::new(vars));
variable_selector_harness!(variable_proportional_domain_size, 6, |vars| ProportionalDomainSize::new(&vars));
variable_selector_harness!(variable_smallest_random_tie_breaker, 6, |vars| {
    Smallest::with_tie_breaker(&vars, RandomTieBreaker::new(Direction::Minimum, Box::new(AnyRandom)))
});
