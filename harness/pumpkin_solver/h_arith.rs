// Obligations O1-O4, O7 for the stateless arithmetic propagators: absolute value, maximum,
// integer multiplication, division (DESIGN.md §3).
#[cfg(not(kani))]
use super::kani;

use super::env::verif_harness;
use super::env::all_fixed;
use super::env::at_lb;
use super::env::protocol;
use super::monitor;
use super::shadow;
use super::shadow::unroll;
use crate::engine::propagation::Propagator;
use crate::engine::variables::AffineView;
use crate::engine::variables::DomainId;
use crate::engine::variables::IntegerVariable;
use crate::propagators::absolute_value::AbsoluteValuePropagator;
use crate::propagators::division::DivisionPropagator;
use crate::propagators::integer_multiplication::IntegerMultiplicationPropagator;
use crate::propagators::maximum::MaximumPropagator;

fn id(i: usize) -> DomainId {
    DomainId::new(i as u32)
}

/// Posting from an arbitrary state (initialise_at_root + one propagate; these propagators are
/// stateless, so one call from an arbitrary state covers every later call too); O1/O2 on the
/// outcome, O3/O4 by the monitor tap; O5 when the state is a full assignment.
pub(crate) fn one_step<P: Propagator>(propagator: &mut P, n: usize, sem: impl Fn(fn(usize) -> i64) -> bool) {
    let outcome = protocol(propagator, n, &[], false, 1);
    if outcome.ok && !outcome.pending && all_fixed(n) {
        assert!(
            sem(at_lb),
            "[O5] every variable is fixed and the constraint is violated, but no conflict was reported"
        );
    }
}

// ---------------------------------------------------------------------------------------------
// |signed| = absolute
// ---------------------------------------------------------------------------------------------
fn sem_abs(at: fn(usize) -> i64) -> bool {
    at(1).abs() == at(2)
}

verif_harness! {
    #[kani::unwind(4)]
    fn abs_ids_full() {
        shadow::init_any(1, 1);
        shadow::init_any(2, 0);
        monitor::pick_points(2);
        monitor::set_semantics(sem_abs(monitor::v), sem_abs(monitor::w));
        let mut propagator = AbsoluteValuePropagator::new(id(1), id(2));
        one_step(&mut propagator, 2, sem_abs);
        core::mem::forget(propagator);
    }
}

verif_harness! {
    #[kani::unwind(4)]
    fn abs_negated_view_full() {
        // |-x| = y through a scaled(-1) view: the bound swap of the view meets the sign cases.
        shadow::init_any(1, 0);
        shadow::init_any(2, 0);
        kani::assume(shadow::lb(1) > i32::MIN);
        monitor::pick_points(2);
        monitor::set_semantics(sem_abs(monitor::v), sem_abs(monitor::w));
        let mut propagator = AbsoluteValuePropagator::new(AffineView::new(id(1), -1, 0), id(2));
        one_step(&mut propagator, 2, sem_abs);
        core::mem::forget(propagator);
    }
}

// ---------------------------------------------------------------------------------------------
// max(a_1..a_n) = rhs
// ---------------------------------------------------------------------------------------------
fn sem_max(n: usize, at: fn(usize) -> i64) -> bool {
    let mut m = at(1);
    unroll!(i in [2, 3] {
        if i <= n && at(i) > m {
            m = at(i);
        }
    });
    m == at(n + 1)
}

fn maximum(n: usize, holes: usize) {
    unroll!(i in [1, 2, 3, 4] {
        if i <= n + 1 {
            shadow::init_any(i, holes);
        }
    });
    monitor::pick_points(n + 1);
    monitor::set_semantics(sem_max(n, monitor::v), sem_max(n, monitor::w));
    let array: Vec<DomainId> = (1..=n).map(id).collect();
    let mut propagator = MaximumPropagator::new(array.into(), id(n + 1));
    one_step(&mut propagator, n + 1, |at| sem_max(n, at));
    core::mem::forget(propagator);
}

verif_harness! {
    #[kani::unwind(4)]
    fn max_ids_2() {
        maximum(2, 0);
    }
}

verif_harness! {
    #[kani::unwind(5)]
    fn max_ids_3() {
        maximum(3, 0);
    }
}

verif_harness! {
    #[kani::unwind(4)]
    fn min_as_negated_max_2() {
        // `constraints::minimum` is `maximum` over scaled(-1) views.
        unroll!(i in [1, 2, 3] {
            shadow::init_any(i, 0);
            kani::assume(shadow::lb(i) > i32::MIN);
        });
        monitor::pick_points(3);
        fn sem_min(at: fn(usize) -> i64) -> bool {
            let m = if at(1) < at(2) { at(1) } else { at(2) };
            m == at(3)
        }
        monitor::set_semantics(sem_min(monitor::v), sem_min(monitor::w));
        let array: Vec<AffineView<DomainId>> =
            (1..=2).map(|i| AffineView::new(id(i), -1, 0)).collect();
        let mut propagator = MaximumPropagator::new(array.into(), AffineView::new(id(3), -1, 0));
        one_step(&mut propagator, 3, sem_min);
        core::mem::forget(propagator);
    }
}

// ---------------------------------------------------------------------------------------------
// a * b = c
// ---------------------------------------------------------------------------------------------
fn sem_mul(at: fn(usize) -> i64) -> bool {
    at(1) * at(2) == at(3)
}

fn multiplication(range: i32) {
    unroll!(i in [1, 2, 3] {
        shadow::init_within(i, -range, range, 0);
    });
    monitor::pick_points(3);
    // The arbitrary point V is kept in a range where the reference product cannot overflow
    // i64; the explanation obligation is about the constraint, not about huge V.
    monitor::set_semantics(sem_mul(monitor::v), sem_mul(monitor::w));
    let mut propagator = IntegerMultiplicationPropagator::new(id(1), id(2), id(3));
    one_step(&mut propagator, 3, sem_mul);
    core::mem::forget(propagator);
}

verif_harness! {
    #[kani::unwind(4)]
    fn mul_ids_64() {
        multiplication(64);
    }
}

verif_harness! {
    #[kani::unwind(4)]
    fn mul_ids_1024() {
        multiplication(1024);
    }
}

verif_harness! {
    #[kani::unwind(4)]
    fn mul_ids_66000() {
        // 65536 * 65536 = 2^32 is past the i32 product boundary (46341^2 > i32::MAX).
        multiplication(66000);
    }
}

// ---------------------------------------------------------------------------------------------
// numerator / denominator = rhs (truncating), 0 not in dom(denominator)
// ---------------------------------------------------------------------------------------------
fn sem_div(at: fn(usize) -> i64) -> bool {
    at(2) != 0 && at(1) / at(2) == at(3)
}

fn division(range: i32) {
    unroll!(i in [1, 2, 3] {
        shadow::init_within(i, -range, range, 0);
    });
    // documented precondition of `constraints::division`
    kani::assume(!shadow::contains(2, 0));
    monitor::pick_points(3);
    monitor::set_semantics(sem_div(monitor::v), sem_div(monitor::w));
    let mut propagator = DivisionPropagator::new(id(1), id(2), id(3));
    one_step(&mut propagator, 3, sem_div);
    core::mem::forget(propagator);
}

verif_harness! {
    #[kani::unwind(4)]
    fn div_ids_64() {
        division(64);
    }
}

verif_harness! {
    #[kani::unwind(4)]
    fn div_ids_1024() {
        division(1024);
    }
}

