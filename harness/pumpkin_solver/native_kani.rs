// Native stand-in for the `kani` crate, used by the counterexample replay (cfg(pumpkin_verif)).
// `any()` pops the next concrete value of the solver's counterexample; `assume(false)` means the
// counterexample does not apply to the real run (reported as NOT-REPRODUCED / inapplicable).

use std::cell::RefCell;

thread_local! {
    static VALUES: RefCell<Vec<Vec<u8>>> = RefCell::new(Vec::new());
    static CURSOR: RefCell<usize> = RefCell::new(0);
}

pub(crate) struct AssumptionViolated;
pub(crate) struct OutOfValues;

pub(crate) fn load(values: Vec<Vec<u8>>) {
    VALUES.with(|v| *v.borrow_mut() = values);
    CURSOR.with(|c| *c.borrow_mut() = 0);
}

pub(crate) fn consumed() -> (usize, usize) {
    (CURSOR.with(|c| *c.borrow()), VALUES.with(|v| v.borrow().len()))
}

fn pop(width: usize) -> Vec<u8> {
    let index = CURSOR.with(|c| {
        let mut c = c.borrow_mut();
        *c += 1;
        *c - 1
    });
    let bytes = VALUES.with(|v| v.borrow().get(index).cloned());
    match bytes {
        Some(bytes) if bytes.len() == width => bytes,
        Some(bytes) => panic!(
            "[REPLAY] concrete value {index} has {} bytes, the harness asked for {width}",
            bytes.len()
        ),
        None => std::panic::panic_any(OutOfValues),
    }
}

pub(crate) trait Arbitrary: Sized {
    fn any() -> Self;
}

macro_rules! int_any {
    ($($t:ty),*) => {$(
        impl Arbitrary for $t {
            fn any() -> Self {
                let bytes = pop(core::mem::size_of::<$t>());
                <$t>::from_le_bytes(bytes.try_into().unwrap())
            }
        }
    )*};
}
int_any!(i8, u8, i16, u16, i32, u32, i64, u64, usize, isize);

impl Arbitrary for bool {
    fn any() -> Self {
        pop(1)[0] & 1 == 1
    }
}

impl<T: Arbitrary, const N: usize> Arbitrary for [T; N] {
    fn any() -> Self {
        core::array::from_fn(|_| T::any())
    }
}

pub(crate) fn any<T: Arbitrary>() -> T {
    T::any()
}

pub(crate) fn assume(condition: bool) {
    if !condition {
        std::panic::panic_any(AssumptionViolated);
    }
}

macro_rules! cover {
    ($($tt:tt)*) => {};
}
pub(crate) use cover;
