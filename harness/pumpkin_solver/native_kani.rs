// Native stand-in for the `kani` crate, used by the counterexample replay (cfg(pumpkin_verif)).
// `any()` pops the next concrete value of the solver's counterexample; `assume(false)` means the
// counterexample does not apply to the real run (reported as NOT-REPRODUCED / inapplicable).

use std::cell::RefCell;

thread_local! {
    static VALUES: RefCell<Vec<Vec<u8>>> = RefCell::new(Vec::new());
    static CURSOR: RefCell<usize> = RefCell::new(0);
}

pub(crate) struct AssumptionViolated;
pub(crate) struct OutOfValues;

pub(crate) fn load(values: Vec<Vec<u8>>) {
    VALUES.with(|v| *v.borrow_mut() = values);
    CURSOR.with(|c| *c.borrow_mut() = 0);
}

pub(crate) fn consumed() -> (usize, usize) {
    (CURSOR.with(|c| *c.borrow()), VALUES.with(|v| v.borrow().len()))
}

fn pop(width: usize) -> Vec<u8> {
    if let Some(bytes) = draw(width) {
        return bytes;
    }
    let index = CURSOR.with(|c| {
        let mut c = c.borrow_mut();
        *c += 1;
        *c - 1
    });
    let bytes = VALUES.with(|v| v.borrow().get(index).cloned());
    match bytes {
        Some(bytes) if bytes.len() == width => bytes,
        Some(bytes) => panic!(
            "[REPLAY] concrete value {index} has {} bytes, the harness asked for {width}",
            bytes.len()
        ),
        None => std::panic::panic_any(OutOfValues),
    }
}

pub(crate) trait Arbitrary: Sized {
    fn any() -> Self;
}

macro_rules! int_any {
    ($($t:ty),*) => {$(
        impl Arbitrary for $t {
            fn any() -> Self {
                let bytes = pop(core::mem::size_of::<$t>());
                <$t>::from_le_bytes(bytes.try_into().unwrap())
            }
        }
    )*};
}
int_any!(i8, u8, i16, u16, i32, u32, i64, u64, usize, isize);

impl Arbitrary for bool {
    fn any() -> Self {
        pop(1)[0] & 1 == 1
    }
}

impl<T: Arbitrary, const N: usize> Arbitrary for [T; N] {
    fn any() -> Self {
        core::array::from_fn(|_| T::any())
    }
}

pub(crate) fn any<T: Arbitrary>() -> T {
    T::any()
}

pub(crate) fn assume(condition: bool) {
    if !condition {
        std::panic::panic_any(AssumptionViolated);
    }
}

macro_rules! cover {
    ($($tt:tt)*) => {};
}
pub(crate) use cover;

// ---------------------------------------------------------------------------------------------
// Witness search mode. Used only when Kani's concrete playback cannot produce values (it turns
// formula slicing off and then runs out of memory on the larger harnesses): the solver has
// already decided that the obligation fails; this looks for a *replayable* input natively by
// drawing every `any()` from a boundary-biased generator, and records what it drew.
// ---------------------------------------------------------------------------------------------
thread_local! {
    static SEARCH: RefCell<Option<u64>> = RefCell::new(None);
    static DRAWN: RefCell<Vec<Vec<u8>>> = RefCell::new(Vec::new());
}

pub(crate) fn search_begin(state: u64) {
    SEARCH.with(|s| *s.borrow_mut() = Some(state | 1));
    DRAWN.with(|d| d.borrow_mut().clear());
}

pub(crate) fn search_drawn() -> Vec<Vec<u8>> {
    DRAWN.with(|d| d.borrow().clone())
}

fn next_random() -> Option<u64> {
    SEARCH.with(|s| {
        let mut s = s.borrow_mut();
        match s.as_mut() {
            None => None,
            Some(state) => {
                // xorshift64*
                *state ^= *state >> 12;
                *state ^= *state << 25;
                *state ^= *state >> 27;
                Some(state.wrapping_mul(0x2545F4914F6CDD1D))
            }
        }
    })
}

/// A boundary-biased value of `width` bytes (little endian, two's complement).
fn draw(width: usize) -> Option<Vec<u8>> {
    let r = next_random()?;
    let bits = (width * 8) as u32;
    let min: i128 = -(1i128 << (bits - 1));
    let max: i128 = (1i128 << (bits - 1)) - 1;
    let pick = (r >> 8) as usize;
    let value: i128 = match r % 8 {
        0 => [min, min + 1, max, max - 1][pick % 4],
        1 => [-(1i128 << (bits / 2)), 1i128 << (bits / 2), -(1i128 << (bits - 2)), 1i128 << (bits - 2),
              (1i128 << (bits - 2)) + 1, -(1i128 << (bits - 2)) - 1][pick % 6].clamp(min, max),
        2 | 3 | 4 => (pick % 9) as i128 - 4,
        5 => (pick % 200) as i128 - 100,
        6 => ((pick as i128) % 140_000) - 70_000,
        _ => ((next_random()? as i128) << 1 ^ (r as i128)).rem_euclid(1i128 << bits) + min,
    }
    .clamp(min, max);
    let bytes = (value as u128).to_le_bytes()[..width].to_vec();
    DRAWN.with(|d| d.borrow_mut().push(bytes.clone()));
    Some(bytes)
}
