// Obligations O1-O5, O7 for ElementPropagator (eager and lazily computed reasons), DESIGN.md §3.
#[cfg(not(kani))]
use super::kani;

use super::env::all_fixed;
use super::env::at_lb;
use super::env::protocol;
use super::env::protocol_no_covers;
use super::env::verif_harness;
use super::env::Change;
use super::monitor;
use super::shadow;
use super::shadow::unroll;
use crate::engine::propagation::Propagator;
use crate::engine::variables::DomainId;
use crate::propagators::element::ElementPropagator;

fn id(i: usize) -> DomainId {
    DomainId::new(i as u32)
}

/// element([x_1..x_len], index, rhs): variables 1..=len are the array, len+1 the index (0-based
/// into the array), len+2 the right-hand side.
fn sem_element(len: usize, at: fn(usize) -> i64) -> bool {
    let index = at(len + 1);
    if index < 0 || index >= len as i64 {
        return false;
    }
    let mut holds = false;
    unroll!(i in [0, 1, 2] {
        if i < len && index == i as i64 && at(i + 1) == at(len + 2) {
            holds = true;
        }
    });
    holds
}

fn element(len: usize, holes: usize, changes: &[Change], covers: bool) {
    let n = len + 2;
    let mut propagator =
        ElementPropagator::new((1..=len).map(id).collect::<Vec<_>>().into(), id(len + 1), id(len + 2));
    unsafe {
        monitor::PROPAGATOR = Some(&mut propagator as *mut _ as *mut dyn Propagator);
    }
    monitor::set_semantics(sem_element(len, monitor::v), sem_element(len, monitor::w));
    let outcome = if covers {
        let outcome = protocol(&mut propagator, n, changes, false, 1);
        kani::cover!(unsafe { monitor::LAZY_RESOLVED } > 0, "lazy reason resolved");
        outcome
    } else {
        protocol_no_covers(&mut propagator, n, changes, false, 1)
    };
    if outcome.ok && !outcome.pending && all_fixed(n) {
        assert!(
            sem_element(len, at_lb),
            "[O5] every variable is fixed and the constraint is violated, but no conflict was reported"
        );
    }
    unsafe {
        monitor::PROPAGATOR = None;
    }
    core::mem::forget(propagator);
}

fn element_domains(len: usize, holes: usize) {
    unroll!(i in [1, 2, 3] {
        if i <= len {
            shadow::init_any(i, 0);
        }
    });
    // the index: a small window around the valid range, with holes
    shadow::init_within(len + 1, -2, len as i32 + 1, holes);
    shadow::init_any(len + 2, 0);
}

verif_harness! {
    #[kani::unwind(4)]
    fn element_2() {

        element_domains(2, 0);
        monitor::pick_points(4);
        element(2, 0, &[], false);
    }
}

verif_harness! {
    #[kani::unwind(4)]
    fn element_2_index_hole() {
        element_domains(2, 1);
        monitor::pick_points(4);
        element(2, 1, &[], true);
    }
}

verif_harness! {
    #[kani::unwind(4)]
    fn element_2_change() {
        element_domains(2, 0);
        monitor::pick_points(4);
        let changes = [Change::any(4)];
        element(2, 0, &changes, true);
    }
}

verif_harness! {
    #[kani::unwind(3)]
    fn element_1() {

        // the smallest instance: every rule (index bounds, rhs bounds with lazy reasons, index
        // filtering, equality once the index is fixed) is still exercised
        element_domains(1, 0);
        monitor::pick_points(3);
        element(1, 0, &[], false);
    }
}

verif_harness! {
    #[kani::unwind(3)]
    fn element_1_reach() {
        // Vacuity witness for the element harnesses: concrete domains that satisfy every
        // assumption of the symbolic harnesses, on which the cover points are reachable.
        shadow::init_range(1, 3, 5, 0);
        shadow::init_range(2, -1, 2, 0);
        shadow::init_range(3, 0, 10, 0);
        monitor::pick_points(3);
        element(1, 0, &[], true);
    }
}
