// Obligations O1-O5, O7 for the real generic `ReifiedPropagator<P>` instantiated with a
// harness-defined model propagator `P = UpperBoundModel` (`x1 <= c`, one variable, no incremental
// state, implements `detect_inconsistency`). The code under test is the wrapper: the cached
// inconsistency (`notify` -> `filter_enqueue_decision` -> `find_inconsistency`), its clearing in
// `synchronise`, `propagate_reification`, the reification literal appended to reasons
// (`with_reification`) and to conflicts (`map_propagation_status`). The inner propagator is a
// stand-in that obeys the `Propagator` contract; the real inner propagators are covered (without
// backtracking) by h_reified.rs. Assume-guarantee: see DESIGN.md §9.7.
#[cfg(not(kani))]
use super::kani;

use super::env::all_fixed;
use super::env::at_lb;
use super::env::protocol_interrupted;
use super::env::protocol_no_covers;
use super::env::verif_harness_real_trailed;
use super::env::Change;
use super::monitor;
use super::shadow;
use crate::basic_types::PropagationStatusCP;
use crate::basic_types::PropositionalConjunction;
use crate::conjunction;
use crate::engine::cp::propagation::ReadDomains;
use crate::engine::domain_events::DomainEvents;
use crate::engine::opaque_domain_event::OpaqueDomainEvent;
use crate::engine::propagation::contexts::StatefulPropagationContext;
use crate::engine::propagation::EnqueueDecision;
use crate::engine::propagation::LocalId;
use crate::engine::propagation::PropagationContextMut;
use crate::engine::propagation::Propagator;
use crate::engine::propagation::PropagatorInitialisationContext;
use crate::engine::variables::DomainId;
use crate::engine::variables::Literal;
use crate::propagators::ReifiedPropagator;

/// Model inner propagator for `x <= c`.
#[derive(Clone, Debug)]
pub(crate) struct UpperBoundModel {
    x: DomainId,
    c: i32,
}

impl UpperBoundModel {
    fn violated(&self, lower_bound: i32) -> Option<PropositionalConjunction> {
        if lower_bound > self.c {
            // lower_bound > c, so c + 1 does not overflow
            Some(conjunction!([self.x >= self.c + 1]))
        } else {
            None
        }
    }
}

impl Propagator for UpperBoundModel {
    fn name(&self) -> &str {
        "UpperBoundModel"
    }

    fn debug_propagate_from_scratch(
        &self,
        mut context: PropagationContextMut,
    ) -> PropagationStatusCP {
        if let Some(conjunction) = self.violated(context.lower_bound(&self.x)) {
            return Err(conjunction.into());
        }
        context.set_upper_bound(&self.x, self.c, conjunction!())?;
        Ok(())
    }

    fn propagate(&mut self, mut context: PropagationContextMut) -> PropagationStatusCP {
        if let Some(conjunction) = self.violated(context.lower_bound(&self.x)) {
            return Err(conjunction.into());
        }
        context.set_upper_bound(&self.x, self.c, conjunction!())?;
        Ok(())
    }

    fn notify(
        &mut self,
        _context: StatefulPropagationContext,
        _local_id: LocalId,
        _event: OpaqueDomainEvent,
    ) -> EnqueueDecision {
        EnqueueDecision::Enqueue
    }

    fn initialise_at_root(
        &mut self,
        context: &mut PropagatorInitialisationContext,
    ) -> Result<(), PropositionalConjunction> {
        let _ = context.register(self.x, DomainEvents::BOUNDS, LocalId::from(0));
        match self.violated(context.lower_bound(&self.x)) {
            Some(conjunction) => Err(conjunction),
            None => Ok(()),
        }
    }

    fn detect_inconsistency(
        &self,
        context: StatefulPropagationContext,
    ) -> Option<PropositionalConjunction> {
        self.violated(context.lower_bound(&self.x))
    }
}

fn domains() {
    shadow::init_any(1, 0);
    // the reification literal's 0-1 variable: free, true or false
    shadow::init_within(2, 0, 1, 0);
}

fn sem(c: i32, at: fn(usize) -> i64) -> bool {
    !(at(2) >= 1) || at(1) <= c as i64
}

fn setup() -> (i32, ReifiedPropagator<UpperBoundModel>) {
    domains();
    let c: i32 = kani::any();
    monitor::pick_points(2);
    monitor::set_semantics(sem(c, monitor::v), sem(c, monitor::w));
    let literal = Literal::new(DomainId::new(2));
    let propagator = ReifiedPropagator::new(UpperBoundModel { x: DomainId::new(1), c }, literal);
    (c, propagator)
}

fn o5(c: i32, ok: bool, pending: bool) {
    if ok && !pending && all_fixed(2) {
        assert!(
            sem(c, at_lb),
            "[O5] every variable is fixed and `r -> c` is violated, but no conflict was reported"
        );
    }
}

verif_harness_real_trailed! {
    #[kani::unwind(4)]
    fn wrapper_change() {
        let (c, mut propagator) = setup();
        let changes = [Change::any(2)];
        let outcome = protocol_no_covers(&mut propagator, 2, &changes, false, 2);
        o5(c, outcome.ok, outcome.pending);
        core::mem::forget(propagator);
    }
}

verif_harness_real_trailed! {
    #[kani::unwind(4)]
    fn wrapper_backtrack() {
        // change (may cache an inconsistency in `notify`), propagate, backtrack (the real
        // `synchronise` clears the cache), second change, propagate.
        let (c, mut propagator) = setup();
        let changes = [Change::any(2), Change::any(2)];
        let outcome = protocol_no_covers(&mut propagator, 2, &changes, true, 2);
        o5(c, outcome.ok, outcome.pending);
        core::mem::forget(propagator);
    }
}

verif_harness_real_trailed! {
    #[kani::unwind(4)]
    fn wrapper_interrupted() {
        // a change is notified (`notify` may cache an inconsistency and enqueue), the engine
        // backtracks to the root before the propagator runs, a second change is notified and the
        // propagator runs: the cached inconsistency must be gone.
        let (c, mut propagator) = setup();
        let first = Change::any(2);
        let second = Change::any(2);
        let outcome = protocol_interrupted(&mut propagator, 2, &first, &second);
        o5(c, outcome.ok, outcome.pending);
        core::mem::forget(propagator);
    }
}
