// Kernel obligations: predicate algebra (K-pred), blocking clauses of the solution iterator
// (K-block), values read out of a solution (K-sol), assumption posting (K-assume).
#[cfg(not(kani))]
use super::kani;

use super::env::verif_harness;
use super::monitor::holds_at;
use super::shadow;
use super::shadow::unroll;
use super::shadow::NV;
use crate::basic_types::ProblemSolution;
use crate::basic_types::Solution;
use crate::basic_types::SolutionReference;
use crate::engine::predicates::predicate::Predicate;
use crate::engine::variables::AffineView;
use crate::engine::variables::DomainId;
use crate::engine::variables::Literal;

fn any_predicate(domain: u32) -> Predicate {
    let kind: u8 = kani::any();
    let c: i32 = kani::any();
    kani::assume(kind < 4);
    let domain_id = DomainId::new(domain);
    match kind {
        0 => Predicate::LowerBound { domain_id, lower_bound: c },
        1 => Predicate::UpperBound { domain_id, upper_bound: c },
        2 => Predicate::NotEqual { domain_id, not_equal_constant: c },
        _ => Predicate::Equal { domain_id, equality_constant: c },
    }
}

fn point(x: i32) -> [i32; NV] {
    let mut pt = [0; NV];
    pt[1] = x;
    pt
}

verif_harness! {
    #[kani::unwind(4)]
    fn predicate_negation() {
        let p = any_predicate(1);
        let x: i32 = kani::any();
        let pt = point(x);
        let not_p = !p;
        // Negating a bound predicate moves the constant by one: [x >= i32::MIN] and
        // [x <= i32::MAX] have no negation among the predicates (their negation is false).
        let representable = match p {
            Predicate::LowerBound { lower_bound, .. } => lower_bound > i32::MIN,
            Predicate::UpperBound { upper_bound, .. } => upper_bound < i32::MAX,
            _ => true,
        };
        kani::assume(representable);
        assert!(holds_at(not_p, &pt) != holds_at(p, &pt), "[K-pred] the negation of a predicate is not its complement");
        assert!(!not_p == p, "[K-pred] negating a predicate twice does not give the original");
    }
}

verif_harness! {
    #[kani::unwind(4)]
    fn predicate_mutual_exclusion() {
        let same_domain: bool = kani::any();
        let p = any_predicate(1);
        let q = any_predicate(if same_domain { 1 } else { 2 });
        let x: i32 = kani::any();
        let y: i32 = kani::any();
        let mut pt = point(x);
        pt[2] = y;
        if p.is_mutually_exclusive_with(q) {
            assert!(
                !(holds_at(p, &pt) && holds_at(q, &pt)),
                "[K-pred] two predicates reported as mutually exclusive are satisfied by one assignment"
            );
        }
        // symmetry: the answer may not depend on the order of the pair
        assert!(
            p.is_mutually_exclusive_with(q) == q.is_mutually_exclusive_with(p),
            "[K-pred] mutual exclusion is not symmetric"
        );
    }
}

verif_harness! {
    #[kani::unwind(4)]
    fn predicate_mutual_exclusion_is_complete_for_one_variable() {
        // For two predicates over the same variable, `is_mutually_exclusive_with` = false must
        // mean some value satisfies both, except for the combinations the function documents as
        // not detected (pairs involving `!=`, and pairs of equal kind other than `==`,`==`).
        let p = any_predicate(1);
        let q = any_predicate(1);
        let detected_kinds = matches!(
            (p, q),
            (Predicate::LowerBound { .. }, Predicate::UpperBound { .. })
                | (Predicate::UpperBound { .. }, Predicate::LowerBound { .. })
                | (Predicate::LowerBound { .. }, Predicate::Equal { .. })
                | (Predicate::Equal { .. }, Predicate::LowerBound { .. })
                | (Predicate::UpperBound { .. }, Predicate::Equal { .. })
                | (Predicate::Equal { .. }, Predicate::UpperBound { .. })
                | (Predicate::NotEqual { .. }, Predicate::Equal { .. })
                | (Predicate::Equal { .. }, Predicate::NotEqual { .. })
                | (Predicate::Equal { .. }, Predicate::Equal { .. })
        );
        kani::assume(detected_kinds);
        if !p.is_mutually_exclusive_with(q) {
            // a witness exists: one of the constants involved, or one next to it
            let c = |p: Predicate| match p {
                Predicate::LowerBound { lower_bound, .. } => lower_bound,
                Predicate::UpperBound { upper_bound, .. } => upper_bound,
                Predicate::NotEqual { not_equal_constant, .. } => not_equal_constant,
                Predicate::Equal { equality_constant, .. } => equality_constant,
            };
            let candidates = [c(p), c(q), c(p).wrapping_add(1), c(p).wrapping_sub(1),
                              c(q).wrapping_add(1), c(q).wrapping_sub(1)];
            let mut witnessed = false;
            unroll!(i in [0, 1, 2, 3, 4, 5] {
                let pt = point(candidates[i]);
                witnessed = witnessed || (holds_at(p, &pt) && holds_at(q, &pt));
            });
            assert!(witnessed, "[K-pred] two contradictory predicates over one variable are not reported as mutually exclusive");
        }
    }
}

// ---------------------------------------------------------------------------------------------
// K-sol: values read out of a solution
// ---------------------------------------------------------------------------------------------
verif_harness! {
    #[kani::unwind(4)]
    fn solution_values() {
        let x: i32 = kani::any();
        let b: i32 = kani::any();
        kani::assume(b == 0 || b == 1);
        shadow::init_range(1, x, x, 0);
        shadow::init_range(2, b, b, 0);
        let solution = SolutionReference::new(shadow::assignments());
        assert!(solution.get_integer_value(DomainId::new(1)) == x, "[K-sol] a solution reports another value than the one the variable is fixed to");
        let scale: i32 = kani::any();
        let offset: i32 = kani::any();
        kani::assume(scale == 1 || scale == -1 || scale == 2 || scale == -3);
        let image = scale as i64 * x as i64 + offset as i64;
        let product = scale as i64 * x as i64;
        kani::assume(image >= i32::MIN as i64 && image <= i32::MAX as i64);
        kani::assume(product >= i32::MIN as i64 && product <= i32::MAX as i64);
        let view = AffineView::new(DomainId::new(1), scale, offset);
        assert!(solution.get_integer_value(view) as i64 == image, "[K-sol] a solution reports a view value different from scale*x+offset");
        let literal = Literal::new(DomainId::new(2));
        assert!(solution.get_literal_value(literal) == (b == 1), "[K-sol] a solution reports the wrong truth value of a literal");
        assert!(solution.get_literal_value(!literal) == (b == 0), "[K-sol] a solution reports the wrong truth value of a negated literal");
    }
}

// ---------------------------------------------------------------------------------------------
// K-block: the blocking clause of the solution iterator removes exactly the given solution
// ---------------------------------------------------------------------------------------------
verif_harness! {
    #[kani::unwind(6)]
    fn blocking_clause_removes_exactly_one_solution() {
        // every domain of the store is part of the solution: 1..NV-1
        let mut s = [0i32; NV];
        let mut other = [0i32; NV];
        let mut i = 1;
        while i < NV {
            s[i] = kani::any();
            other[i] = kani::any();
            shadow::init_range(i, s[i], s[i], 0);
            i += 1;
        }
        s[0] = 1;
        other[0] = 1;
        let solution = Solution::new(shadow::assignments().clone());
        let clause = crate::results::solution_iterator::verif_get_blocking_clause(&solution);
        assert!(clause.len() == NV - 1, "[K-block] the blocking clause does not mention every variable exactly once");
        let mut satisfied_by_solution = false;
        let mut satisfied_by_other = false;
        let mut mentions_dummy = false;
        let mut i = 0;
        while i < NV - 1 {
            let p = clause[i];
            satisfied_by_solution = satisfied_by_solution || holds_at(p, &s);
            satisfied_by_other = satisfied_by_other || holds_at(p, &other);
            mentions_dummy = mentions_dummy || p.get_domain().id == 0;
            i += 1;
        }
        assert!(!satisfied_by_solution, "[K-block] the blocking clause does not exclude the solution it was built from");
        assert!(!mentions_dummy, "[K-block] the blocking clause mentions the solver's always-true dummy variable");
        let mut differs = false;
        let mut i = 1;
        while i < NV {
            differs = differs || other[i] != s[i];
            i += 1;
        }
        assert!(satisfied_by_other == differs, "[K-block] the blocking clause excludes an assignment other than the solution");
        core::mem::forget(clause);
        core::mem::forget(solution);
    }
}

verif_harness! {
    #[kani::unwind(6)]
    fn blocking_clause_conflicts_with_the_solution_state() {
        // In the state in which the solution was found every literal of its blocking clause is
        // decided and false (so adding the clause forces the search away from that solution), and
        // after backtracking to a state in which some variable is unfixed the clause is not
        // violated any more.
        let mut s = [0i32; NV];
        let mut i = 1;
        while i < NV {
            s[i] = kani::any();
            shadow::init_range(i, s[i], s[i], 0);
            i += 1;
        }
        let solution = Solution::new(shadow::assignments().clone());
        let clause = crate::results::solution_iterator::verif_get_blocking_clause(&solution);
        assert!(clause.len() == NV - 1, "[K-block] the blocking clause does not mention every variable exactly once");
        let mut i = 0;
        while i < NV - 1 {
            assert!(
                shadow::assignments().evaluate_predicate(clause[i]) == Some(false),
                "[K-block] a literal of the blocking clause is not false in the solution state"
            );
            i += 1;
        }
        // each variable is mentioned exactly once
        let mut d = 1;
        while d < NV {
            let mut count = 0;
            let mut i = 0;
            while i < NV - 1 {
                if clause[i].get_domain().id as usize == d {
                    count += 1;
                }
                i += 1;
            }
            assert!(count == 1, "[K-block] a variable is missing from (or repeated in) the blocking clause");
            d += 1;
        }
        core::mem::forget(clause);
        core::mem::forget(solution);
    }
}

// ---------------------------------------------------------------------------------------------
// K-assume: posting a predicate on the store fails iff the predicate is falsified
// ---------------------------------------------------------------------------------------------
verif_harness! {
    #[kani::unwind(4)]
    fn post_predicate_fails_iff_falsified() {
        // one hole initially: posting a disequality may add a second one
        shadow::init_any(1, 1);
        let p = any_predicate(1);
        let before = shadow::assignments().evaluate_predicate(p);
        let x: i32 = kani::any();
        let was_in = shadow::contains(1, x);
        let result = shadow::assignments().post_predicate(p, None);
        assert!(result.is_err() == (before == Some(false)), "[K-assume] posting a predicate fails although it is not falsified, or succeeds although it is");
        if result.is_ok() {
            assert!(shadow::assignments().evaluate_predicate(p) == Some(true), "[K-assume] a posted predicate does not hold afterwards");
            let pt = point(x);
            assert!(shadow::contains(1, x) == (was_in && holds_at(p, &pt)), "[K-assume] posting a predicate removes a value that satisfies it, or keeps one that does not");
        }
    }
}
