// Obligations O1-O5, O7 for ReifiedPropagator<LinearNotEqual> with one term: `r -> x1 != c`,
// the literal free / true / false at posting, one symbolic change. The smallest instance in
// which the wrapper's use of the inner propagator's `detect_inconsistency` hook (if the inner
// propagator has one) is exercised for the not-equal propagator (DESIGN.md §4 C09, §9.8).
#[cfg(not(kani))]
use super::kani;

use super::env::all_fixed;
use super::env::at_lb;
use super::env::protocol;
use super::env::verif_harness_real_trailed;
use super::env::Change;
use super::h_linear::Terms;
use super::monitor;
use super::shadow;
use crate::engine::variables::DomainId;
use crate::engine::variables::Literal;
use crate::propagators::linear_not_equal::LinearNotEqualPropagator;
use crate::propagators::ReifiedPropagator;

/// `r -> inner`; the literal is "true" on a point iff its variable is >= 1.
fn sem_implied(n: usize, inner: &dyn Fn(fn(usize) -> i64) -> bool, at: fn(usize) -> i64) -> bool {
    !(at(n + 1) >= 1) || inner(at)
}

verif_harness_real_trailed! {
    #[kani::unwind(4)]
    fn reified_ne_1_change() {
        shadow::init_any(1, 0);
        // the reification literal's 0-1 variable: free, true or false
        shadow::init_within(2, 0, 1, 0);
        let changes = [Change::any(2)];
        let terms = Terms::plain(1);
        let rhs: i32 = kani::any();
        monitor::pick_points(2);
        let changes_owned: Vec<Change> = changes.to_vec();
        let inner = move |at: fn(usize) -> i64| terms.sum(at) != rhs as i64;
        monitor::set_semantics(
            sem_implied(1, &inner, monitor::v),
            sem_implied(1, &inner, monitor::w),
        );
        let literal = Literal::new(DomainId::new(2));
        let mut propagator =
            ReifiedPropagator::new(LinearNotEqualPropagator::new(terms.ids().into(), rhs), literal);
        let outcome = protocol(&mut propagator, 2, &changes_owned, false, 2);
        if outcome.ok && !outcome.pending && all_fixed(2) {
            assert!(
                sem_implied(1, &inner, at_lb),
                "[O5] every variable is fixed and `r -> c` is violated, but no conflict was reported"
            );
        }
        core::mem::forget(changes_owned);
        core::mem::forget(propagator);
    }
}
