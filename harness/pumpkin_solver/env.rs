// The (real, but never consulted for domain contents) engine objects a propagator call needs.

#[cfg(not(kani))]
use super::kani;
use super::monitor;
use super::shadow;
use super::shadow::unroll;
use crate::basic_types::PropagationStatusCP;
use crate::engine::conflict_analysis::SemanticMinimiser;
use crate::engine::opaque_domain_event::OpaqueDomainEvent;
use crate::engine::propagation::EnqueueDecision;
use crate::engine::propagation::Propagator;
use crate::engine::variables::DomainId;
use crate::engine::IntDomainEvent;
use crate::engine::propagation::contexts::StatefulPropagationContext;
use crate::engine::propagation::PropagationContext;
use crate::engine::propagation::PropagationContextMut;
use crate::engine::propagation::PropagatorId;
use crate::engine::propagation::PropagatorInitialisationContext;
use crate::engine::reason::ReasonStore;
use crate::engine::Assignments;
use crate::engine::TrailedAssignments;
use crate::engine::WatchListCP;

pub(crate) struct Env {
    pub(crate) assignments: &'static mut Assignments,
    pub(crate) trailed: TrailedAssignments,
    pub(crate) reason_store: ReasonStore,
    pub(crate) minimiser: SemanticMinimiser,
    pub(crate) watch_list: WatchListCP,
}

impl Env {
    /// Must be called after the domains have been created.
    pub(crate) fn new() -> Env {
        let mut watch_list = WatchListCP::default();
        let mut i = 0;
        // under Kani the watch list is never touched (S3)
        let domains = if cfg!(kani) { 0 } else { super::shadow::assignments().num_domains() as usize };
        while i < domains {
            watch_list.grow();
            i += 1;
        }
        Env {
            assignments: super::shadow::assignments(),
            trailed: TrailedAssignments::default(),
            reason_store: ReasonStore::default(),
            minimiser: SemanticMinimiser::default(),
            watch_list,
        }
    }

    pub(crate) fn init_ctx(&mut self) -> PropagatorInitialisationContext<'_> {
        PropagatorInitialisationContext::new(
            &mut self.watch_list,
            &mut self.trailed,
            PropagatorId(0),
            self.assignments,
        )
    }

    pub(crate) fn prop_ctx(&mut self) -> PropagationContextMut<'_> {
        PropagationContextMut::new(
            &mut self.trailed,
            self.assignments,
            &mut self.reason_store,
            &mut self.minimiser,
            PropagatorId(0),
        )
    }

    pub(crate) fn stateful_ctx(&mut self) -> StatefulPropagationContext<'_> {
        StatefulPropagationContext::new(&mut self.trailed, self.assignments)
    }

    pub(crate) fn read_ctx(&self) -> PropagationContext<'_> {
        PropagationContext::new(self.assignments)
    }

    /// What `ConstraintSatisfactionSolver::notify_propagators_about_domain_events` does for one
    /// propagator: drain the pending domain events of variables `1..=n` and call the real
    /// `notify` for the watcher registered for (event, domain). Returns whether the propagator
    /// was enqueued.
    pub(crate) fn notify_pending<P: Propagator>(&mut self, propagator: &mut P, n: usize) -> bool {
        let mut enqueue = false;
        unroll!(d in [1, 2, 3, 4] {
            if d <= n {
                let mask = shadow::take_events(d);
                // the order of the real `EventSink` is insertion order; a propagator must not
                // depend on it, so one fixed order is used here
                unroll!(e in [0, 1, 2, 3] {
                    if mask & (1u8 << e) != 0 {
                        if let Some(local_id) = monitor::watcher_of(&self.watch_list, e, d, false) {
                            let decision = propagator.notify(
                                StatefulPropagationContext::new(&mut self.trailed, self.assignments),
                                local_id,
                                OpaqueDomainEvent::from(EVENT_ORDER[e]),
                            );
                            if decision == EnqueueDecision::Enqueue {
                                enqueue = true;
                            }
                        }
                    }
                });
            }
        });
        enqueue
    }

    /// The engine's propagation loop restricted to one propagator: while it is enqueued, call
    /// the real `propagate`, check O1/O2 on the outcome (O3/O4 are checked by the monitor tap at
    /// every propagation), then notify it of its own changes. At most `max_calls` calls are
    /// followed; returns (last status, still enqueued).
    pub(crate) fn run_queue<P: Propagator>(
        &mut self,
        propagator: &mut P,
        n: usize,
        mut enqueued: bool,
        max_calls: usize,
    ) -> (bool, bool) {
        let mut ok = true;
        assert!(max_calls <= 2, "[HARNESS] at most two propagate calls are followed");
        unroll!(calls in [0, 1] {
            if calls < max_calls && enqueued && ok {
                let status = propagator.propagate(self.prop_ctx());
                monitor::check_outcome(&status, self.assignments);
                ok = status.is_ok();
                core::mem::forget(status);
                unsafe {
                    PROPAGATE_CALLS += 1;
                }
                enqueued = if ok {
                    self.notify_pending(propagator, n)
                } else {
                    false
                };
            }
        });
        (ok, enqueued)
    }

    /// Backtrack one level: restore the domains, the trailed state, call the real `synchronise`
    /// and deliver the real `notify_backtrack` for the backtrack events the watch list holds.
    /// `before` are the (lb, ub, fixed) of variables `1..=n` before backtracking;
    /// `removed` says for which of them a value removal is being undone.
    pub(crate) fn backtrack<P: Propagator>(&mut self, propagator: &mut P, n: usize, removed: &[bool]) {
        let mut before = [(0i32, 0i32); shadow::NV];
        unroll!(d in [1, 2, 3, 4] {
            if d <= n {
                before[d] = (shadow::lb(d), shadow::ub(d));
            }
        });
        shadow::pop_level();
        self.trailed.synchronise(0);
        propagator.synchronise(self.read_ctx());
        unroll!(d in [1, 2, 3, 4] {
            if d <= n {
                let was_fixed = before[d].0 == before[d].1;
                let is_fixed = shadow::lb(d) == shadow::ub(d);
                let happened = [
                    was_fixed && !is_fixed,
                    before[d].0 != shadow::lb(d),
                    before[d].1 != shadow::ub(d),
                    removed[d],
                ];
                unroll!(e in [0, 1, 2, 3] {
                    if happened[e] {
                        if let Some(local_id) = monitor::watcher_of(&self.watch_list, e, d, true) {
                            propagator.notify_backtrack(
                                self.read_ctx(),
                                local_id,
                                OpaqueDomainEvent::from(EVENT_ORDER[e]),
                            );
                        }
                    }
                });
            }
        });
    }

    pub(crate) fn push_level(&mut self) {
        shadow::push_level();
        self.trailed.increase_decision_level();
    }

    /// Drop glue of the engine objects is expensive for CBMC and irrelevant to every claim.
    pub(crate) fn forget(self) {
        core::mem::forget(self);
    }
}

/// A symbolic change made by "somebody else" (a decision or another propagator): variable, kind
/// (0 = lower bound, 1 = upper bound, 2 = removal, 3 = assignment) and value.
#[derive(Clone, Copy)]
pub(crate) struct Change {
    pub(crate) k: usize,
    pub(crate) kind: u8,
    pub(crate) value: i32,
}

impl Change {
    pub(crate) fn any(n: usize) -> Change {
        let k: usize = kani::any();
        let kind: u8 = kani::any();
        let value: i32 = kani::any();
        kani::assume(1 <= k && k <= n);
        kani::assume(kind <= 3);
        Change { k, kind, value }
    }

    /// Apply to the domain store. Changes that empty the domain are excluded (the engine reports
    /// that conflict itself and no propagator runs). Returns whether a value was removed by a
    /// removal operation.
    pub(crate) fn apply(&self) -> bool {
        let k = self.k;
        let contained = shadow::contains(k, self.value);
        let result = match self.kind {
            0 => shadow::tighten_lb(k, self.value),
            1 => shadow::tighten_ub(k, self.value),
            2 => shadow::remove(k, self.value),
            _ => {
                kani::assume(contained);
                shadow::assign(k, self.value)
            }
        };
        kani::assume(result.is_ok());
        unsafe {
            monitor::W_OK = monitor::W_OK && monitor::w_in_domains();
        }
        self.kind == 2 && contained
    }
}

pub(crate) struct Outcome {
    /// no conflict pending at the end
    pub(crate) ok: bool,
    /// the propagator is still enqueued (the bounded run stopped before the queue was empty)
    pub(crate) pending: bool,
    /// initialise_at_root reported a root conflict
    pub(crate) root_conflict: bool,
}

/// The engine's life cycle of one propagator, restricted to that propagator:
/// `add_propagator` (initialise_at_root, enqueue, propagate to a fixed point of its own events),
/// then for each symbolic change: apply, notify through the real watch list, propagate while
/// enqueued; optionally backtrack over the first change before the second.
pub(crate) fn protocol<P: Propagator>(
    propagator: &mut P,
    n: usize,
    changes: &[Change],
    backtrack_first: bool,
    max_calls: usize,
) -> Outcome {
    protocol_impl::<P, true>(propagator, n, changes, backtrack_first, max_calls)
}

/// The same without cover points: each cover point is one more SAT call on the full formula, which
/// the heaviest harnesses cannot afford (measured: element runs out of memory in the cover phase
/// after all assertions have been discharged).
pub(crate) fn protocol_no_covers<P: Propagator>(
    propagator: &mut P,
    n: usize,
    changes: &[Change],
    backtrack_first: bool,
    max_calls: usize,
) -> Outcome {
    protocol_impl::<P, false>(propagator, n, changes, backtrack_first, max_calls)
}

fn protocol_impl<P: Propagator, const COVERS: bool>(
    propagator: &mut P,
    n: usize,
    changes: &[Change],
    backtrack_first: bool,
    max_calls: usize,
) -> Outcome {
    let mut env = Env::new();
    unroll!(d in [1, 2, 3, 4] {
        if d <= n {
            // events of domain creation are not delivered to a propagator posted afterwards
            let _ = shadow::take_events(d);
        }
    });
    let init = propagator.initialise_at_root(&mut env.init_ctx());
    monitor::check_init_outcome(&init, env.assignments);
    let root_conflict = init.is_err();
    core::mem::forget(init);
    let mut outcome = Outcome {
        ok: !root_conflict,
        pending: false,
        root_conflict,
    };
    if !root_conflict {
        let (ok, pending) = env.run_queue(propagator, n, true, max_calls);
        outcome.ok = ok;
        outcome.pending = pending;
        // (every cover point is one more SAT call on the full formula: two per harness)
        if COVERS {
            kani::cover!(
                ok && unsafe { monitor::PROPAGATIONS } > 0 && unsafe { monitor::W_OK },
                "propagation at posting with live witness"
            );
        }
        assert!(changes.len() <= 2, "[HARNESS] at most two changes");
        unroll!(index in [0, 1] {
            if index < changes.len() && outcome.ok {
                let change = &changes[index];
                let undo = backtrack_first && index == 0;
                let w_ok_before = unsafe { monitor::W_OK };
                if undo {
                    env.push_level();
                }
                let removed = change.apply();
                let before = unsafe { monitor::PROPAGATIONS };
                let enqueued = env.notify_pending(propagator, n) || outcome.pending;
                let (ok, pending) = env.run_queue(propagator, n, enqueued, max_calls);
                outcome.ok = ok;
                outcome.pending = pending;
                if COVERS {
                    kani::cover!(
                        unsafe { monitor::PROPAGATIONS } > before,
                        "propagation after a change"
                    );
                }
                if undo {
                    let mut removed_flags = [false; shadow::NV];
                    removed_flags[change.k] = removed;
                    env.backtrack(propagator, n, &removed_flags);
                    unsafe {
                        monitor::W_OK = w_ok_before;
                    }
                    // the engine clears the queue and resolves the conflict
                    outcome.ok = true;
                    outcome.pending = false;
                }
            }
        });
    }
    #[cfg(not(kani))]
    if std::env::var("VERIF_DEBUG").is_ok() {
        eprintln!(
            "[debug] propagate calls={} propagations={} ok={} pending={} root_conflict={}",
            unsafe { PROPAGATE_CALLS },
            unsafe { monitor::PROPAGATIONS },
            outcome.ok,
            outcome.pending,
            outcome.root_conflict
        );
    }
    // lazily computed reasons are evaluated again in the final (later) state
    monitor::recheck_lazy(env.assignments);
    env.forget();
    outcome
}

/// A history the engine produces when a conflict elsewhere interrupts propagation: the
/// propagator is posted and propagated, a change is notified (the propagator is enqueued but does
/// NOT run), the engine backtracks over that change (real `synchronise` / `notify_backtrack`),
/// then a second change is notified and the propagator finally runs. State cached in `notify`
/// (e.g. the reified wrapper's inconsistency) must not survive the backtrack.
pub(crate) fn protocol_interrupted<P: Propagator>(
    propagator: &mut P,
    n: usize,
    first: &Change,
    second: &Change,
) -> Outcome {
    let mut env = Env::new();
    unroll!(d in [1, 2, 3, 4] {
        if d <= n {
            let _ = shadow::take_events(d);
        }
    });
    let init = propagator.initialise_at_root(&mut env.init_ctx());
    monitor::check_init_outcome(&init, env.assignments);
    let root_conflict = init.is_err();
    core::mem::forget(init);
    let mut outcome = Outcome { ok: !root_conflict, pending: false, root_conflict };
    if !root_conflict {
        let (ok, pending) = env.run_queue(propagator, n, true, 1);
        outcome.ok = ok;
        outcome.pending = pending;
        if ok {
            let w_ok_before = unsafe { monitor::W_OK };
            env.push_level();
            let removed = first.apply();
            let _ = env.notify_pending(propagator, n);
            kani::cover!(true, "change notified, propagation interrupted");
            let mut removed_flags = [false; shadow::NV];
            removed_flags[first.k] = removed;
            env.backtrack(propagator, n, &removed_flags);
            unsafe {
                monitor::W_OK = w_ok_before;
            }
            let _ = second.apply();
            let before = unsafe { monitor::PROPAGATIONS };
            let enqueued = env.notify_pending(propagator, n) || pending;
            let (ok, pending) = env.run_queue(propagator, n, enqueued, 1);
            outcome.ok = ok;
            outcome.pending = pending;
            kani::cover!(unsafe { monitor::PROPAGATIONS } > before, "propagation after the backtrack");
        }
    }
    env.forget();
    outcome
}

pub(crate) fn all_fixed(n: usize) -> bool {
    let mut all = true;
    unroll!(d in [1, 2, 3, 4] {
        if d <= n {
            all = all && shadow::is_fixed(d);
        }
    });
    all
}

pub(crate) fn at_lb(d: usize) -> i64 {
    shadow::lb(d) as i64
}

/// Bit i of a shadow event mask <-> EVENT_ORDER[i]. A variable is watched at most once per event
/// kind by one propagator in the harnesses (a variable occurring twice in one constraint is
/// outside the claim).
pub(crate) const EVENT_ORDER: [IntDomainEvent; 4] = [
    IntDomainEvent::Assign,
    IntDomainEvent::LowerBound,
    IntDomainEvent::UpperBound,
    IntDomainEvent::Removal,
];

/// Number of real `propagate` calls made by `run_queue` (vacuity covers).
pub(crate) static mut PROPAGATE_CALLS: usize = 0;

/// Attach the stubs S1 + S2 + S3 + S4 to a proof harness (Kani), or emit the plain function
/// (native replay).
#[cfg(kani)]
macro_rules! verif_harness {
    ($(#[$meta:meta])* fn $name:ident() $body:block) => {
        #[kani::proof]
        $(#[$meta])*
        #[kani::stub(crate::engine::Assignments::get_lower_bound, crate::engine::Assignments::stub_get_lower_bound)]
        #[kani::stub(crate::engine::Assignments::get_upper_bound, crate::engine::Assignments::stub_get_upper_bound)]
        #[kani::stub(crate::engine::Assignments::is_value_in_domain, crate::engine::Assignments::stub_is_value_in_domain)]
        #[kani::stub(crate::engine::Assignments::tighten_lower_bound, crate::engine::Assignments::stub_tighten_lower_bound)]
        #[kani::stub(crate::engine::Assignments::tighten_upper_bound, crate::engine::Assignments::stub_tighten_upper_bound)]
        #[kani::stub(crate::engine::Assignments::remove_value_from_domain, crate::engine::Assignments::stub_remove_value_from_domain)]
        #[kani::stub(crate::engine::Assignments::make_assignment, crate::engine::Assignments::stub_make_assignment)]
        #[kani::stub(<crate::engine::IntegerDomainIterator as core::iter::Iterator>::next, crate::engine::IntegerDomainIterator::stub_next)]
        #[kani::stub(crate::engine::TrailedAssignments::grow, crate::engine::TrailedAssignments::stub_grow)]
        #[kani::stub(crate::engine::TrailedAssignments::read, crate::engine::TrailedAssignments::stub_read)]
        #[kani::stub(crate::engine::TrailedAssignments::add_assign, crate::engine::TrailedAssignments::stub_add_assign)]
        #[kani::stub(crate::engine::TrailedAssignments::assign, crate::engine::TrailedAssignments::stub_assign)]
        #[kani::stub(crate::engine::TrailedAssignments::increase_decision_level, crate::engine::TrailedAssignments::stub_increase_decision_level)]
        #[kani::stub(crate::engine::TrailedAssignments::synchronise, crate::engine::TrailedAssignments::stub_synchronise)]
        #[kani::stub(crate::engine::reason::ReasonStore::push, crate::engine::reason::ReasonStore::stub_push)]
        #[kani::stub(crate::engine::propagation::PropagatorInitialisationContext::register, crate::engine::propagation::PropagatorInitialisationContext::stub_register)]
        #[kani::stub(crate::engine::Watchers::watch_all, crate::engine::Watchers::stub_watch_all)]
        #[kani::stub(crate::engine::Watchers::watch_all_backtrack, crate::engine::Watchers::stub_watch_all_backtrack)]
        #[kani::stub(alloc::fmt::format, crate::verif_kani::env::stub_format)]
        pub(crate) fn $name() $body
    };
}
/// The same stubs without S7: the trailed integers stay the real `TrailedAssignments`.
#[cfg(kani)]
macro_rules! verif_harness_real_trailed {
    ($(#[$meta:meta])* fn $name:ident() $body:block) => {
        #[kani::proof]
        $(#[$meta])*
        #[kani::stub(crate::engine::Assignments::get_lower_bound, crate::engine::Assignments::stub_get_lower_bound)]
        #[kani::stub(crate::engine::Assignments::get_upper_bound, crate::engine::Assignments::stub_get_upper_bound)]
        #[kani::stub(crate::engine::Assignments::is_value_in_domain, crate::engine::Assignments::stub_is_value_in_domain)]
        #[kani::stub(crate::engine::Assignments::tighten_lower_bound, crate::engine::Assignments::stub_tighten_lower_bound)]
        #[kani::stub(crate::engine::Assignments::tighten_upper_bound, crate::engine::Assignments::stub_tighten_upper_bound)]
        #[kani::stub(crate::engine::Assignments::remove_value_from_domain, crate::engine::Assignments::stub_remove_value_from_domain)]
        #[kani::stub(crate::engine::Assignments::make_assignment, crate::engine::Assignments::stub_make_assignment)]
        #[kani::stub(<crate::engine::IntegerDomainIterator as core::iter::Iterator>::next, crate::engine::IntegerDomainIterator::stub_next)]
        #[kani::stub(crate::engine::reason::ReasonStore::push, crate::engine::reason::ReasonStore::stub_push)]
        #[kani::stub(crate::engine::propagation::PropagatorInitialisationContext::register, crate::engine::propagation::PropagatorInitialisationContext::stub_register)]
        #[kani::stub(crate::engine::Watchers::watch_all, crate::engine::Watchers::stub_watch_all)]
        #[kani::stub(crate::engine::Watchers::watch_all_backtrack, crate::engine::Watchers::stub_watch_all_backtrack)]
        #[kani::stub(alloc::fmt::format, crate::verif_kani::env::stub_format)]
        pub(crate) fn $name() $body
    };
}
#[cfg(not(kani))]
macro_rules! verif_harness {
    ($(#[$meta:meta])* fn $name:ident() $body:block) => {
        pub(crate) fn $name() $body
    };
}
pub(crate) use verif_harness;
#[cfg(kani)]
pub(crate) use verif_harness_real_trailed;
#[cfg(not(kani))]
pub(crate) use verif_harness as verif_harness_real_trailed;

/// S4: `format!` only feeds panic / assertion messages in the code under test.
pub(crate) fn stub_format(_args: core::fmt::Arguments<'_>) -> String {
    String::new()
}
