// C08 — profile-local obligations for the cumulative constraint (DESIGN.md §4 C08):
// given a resource profile that is *valid* (every profile task has a mandatory part covering
// [start, end]) and a further task that overflows the capacity together with the profile, the
// real decision `find_possible_updates` and the real `CumulativePropagationHandler`
// propagations (lower bound, upper bound, holes) with the real naive / big-step / pointwise
// explanations satisfy O1 (no solution pruned), O3 (explanation sufficient), O4 (explanation
// facts hold); the real conflict explanation of an overloaded profile satisfies O2.
#[cfg(not(kani))]
use super::kani;

use std::rc::Rc;

use super::env::verif_harness;
use super::env::Env;
use super::monitor;
use super::shadow;
use super::shadow::unroll;
use crate::basic_types::Inconsistency;
use crate::basic_types::PropagationStatusCP;
use crate::engine::propagation::LocalId;
use crate::engine::variables::DomainId;
use crate::propagators::CumulativeExplanationType;
use crate::propagators::CumulativeParameters;
use crate::propagators::CumulativePropagationHandler;
use crate::propagators::CumulativePropagatorOptions;
use crate::propagators::ResourceProfile;
use crate::propagators::Task;

/// time points considered by the reference semantics (start times are kept inside [LO, HI] and
/// durations are at most DMAX)
const LO: i32 = -2;
const HI: i32 = 3;
const DMAX: i32 = 2;
/// the largest duration any harness may ask for (`sem` looks at LO ..= HI + DMAX_LIMIT - 1)
const DMAX_LIMIT: i32 = 3;

struct Instance {
    /// number of profile tasks (1 or 2); the propagated task is variable `np + 1`
    np: usize,
    duration: [i32; 4],
    usage: [i32; 4],
    capacity: i32,
    start: i32,
    end: i32,
}

/// "At every time point the running tasks use at most the capacity", evaluated on a point.
fn sem(inst: &Instance, at: fn(usize) -> i64) -> bool {
    let n = inst.np + 1;
    let mut ok = true;
    // the time points LO ..= HI + DMAX_LIMIT - 1 (outside them nothing can run)
    unroll!(k in [0, 1, 2, 3, 4, 5, 6, 7] {
        let t = LO as i64 + k as i64;
        let mut load: i64 = 0;
        unroll!(i in [1, 2, 3] {
            if i <= n {
                let s = at(i);
                if s <= t && t < s + inst.duration[i] as i64 {
                    load += inst.usage[i] as i64;
                }
            }
        });
        if load > inst.capacity as i64 {
            ok = false;
        }
    });
    ok
}

fn any_instance(np: usize) -> Instance {
    any_instance_with(np, DMAX)
}

fn any_instance_with(np: usize, dmax: i32) -> Instance {
    let _ = shadow::assignments();
    let mut duration = [0i32; 4];
    let mut usage = [0i32; 4];
    unroll!(i in [1, 2, 3] {
        if i <= np + 1 {
            let d: i32 = kani::any();
            let u: i32 = kani::any();
            // `create_tasks` only keeps tasks with a positive duration and a positive usage
            // (obligation K-tasks below), so these are the tasks the handler can be given
            kani::assume(d >= 1 && d <= dmax && u >= 1 && u <= 4);
            duration[i] = d;
            usage[i] = u;
            shadow::init_within(i, LO, HI, 0);
        }
    });
    let capacity: i32 = kani::any();
    kani::assume(capacity >= 0 && capacity <= 6);
    let start: i32 = kani::any();
    let end: i32 = kani::any();
    kani::assume(LO <= start && start <= end && end <= HI + dmax - 1);
    let inst = Instance { np, duration, usage, capacity, start, end };
    // validity of the profile: every profile task has a mandatory part covering [start, end]
    unroll!(i in [1, 2] {
        if i <= np {
            kani::assume(shadow::ub(i) <= start);
            kani::assume(shadow::lb(i) + inst.duration[i] - 1 >= end);
        }
    });
    inst
}

fn build(inst: &Instance) -> (Vec<Rc<Task<DomainId>>>, ResourceProfile<DomainId>) {
    // (capacities are given up-front: Kani cannot reason about the dangling pointer of an
    // unallocated `Vec`)
    let mut tasks = Vec::with_capacity(4);
    unroll!(i in [1, 2, 3] {
        if i <= inst.np + 1 {
            tasks.push(Rc::new(Task {
                start_variable: DomainId::new(i as u32),
                processing_time: inst.duration[i],
                resource_usage: inst.usage[i],
                id: LocalId::from((i - 1) as u32),
            }));
        }
    });
    let mut profile_tasks = Vec::with_capacity(2);
    let mut height = 0;
    unroll!(i in [1, 2] {
        if i <= inst.np {
            profile_tasks.push(Rc::clone(&tasks[i - 1]));
            height += inst.usage[i];
        }
    });
    let profile = ResourceProfile { start: inst.start, end: inst.end, profile_tasks, height };
    (tasks, profile)
}

fn options(explanation_type: CumulativeExplanationType, allow_holes: bool) -> CumulativePropagatorOptions {
    CumulativePropagatorOptions {
        allow_holes_in_domain: allow_holes,
        explanation_type,
        generate_sequence: false,
        incremental_backtracking: false,
    }
}

/// The body of `propagate_single_profiles` for one (profile, task) pair: the real decision which
/// updates are possible, then the real propagations in the order the engine applies them.
fn propagate_task(np: usize, explanation_type: CumulativeExplanationType, allow_holes: bool) {
    propagate_task_with(np, explanation_type, allow_holes, DMAX)
}

fn propagate_task_with(
    np: usize,
    explanation_type: CumulativeExplanationType,
    allow_holes: bool,
    dmax: i32,
) {
    let inst = any_instance_with(np, dmax);
    monitor::pick_points(np + 1);
    monitor::set_semantics(sem(&inst, monitor::v), sem(&inst, monitor::w));
    let (tasks, profile) = build(&inst);
    let task = Rc::clone(&tasks[np]);
    if allow_holes {
        // the shadow store has room for 2 holes per variable: of a removed range in the middle
        // of the domain only the first two removals are followed (each one is checked by the
        // tap before the execution is cut)
        #[cfg(kani)]
        unsafe {
            shadow::CUT_AT_HOLE_CAPACITY = true;
        }
    }
    // only `capacity` and `options` of the parameters are read by the code under test
    let mut all: Vec<Task<DomainId>> = Vec::with_capacity(1);
    all.push(Task {
        start_variable: DomainId::new((np + 1) as u32),
        processing_time: inst.duration[np + 1],
        resource_usage: inst.usage[np + 1],
        id: LocalId::from(np as u32),
    });
    let mut parameters = CumulativeParameters::new(all, inst.capacity, options(explanation_type, allow_holes));
    let mut env = Env::new();
    let mut context = env.prop_ctx();
    let (lower, upper, holes) = crate::propagators::verif_possible_updates(
        &mut context, &task, &profile, &parameters,
    );
    if allow_holes {
        kani::cover!(holes, "hole update possible");
    } else {
        kani::cover!(lower, "lower bound update possible");
        kani::cover!(upper, "upper bound update possible");
    }
    let mut handler = CumulativePropagationHandler::new(explanation_type);
    handler.next_profile();
    let mut status: PropagationStatusCP = Ok(());
    if lower {
        status = handler
            .propagate_lower_bound_with_explanations(&mut context, &profile, &task)
            .map_err(Inconsistency::from);
    }
    if upper && status.is_ok() {
        status = handler
            .propagate_upper_bound_with_explanations(&mut context, &profile, &task)
            .map_err(Inconsistency::from);
    }
    if holes && status.is_ok() {
        status = handler
            .propagate_holes_in_domain(&mut context, &profile, &task)
            .map_err(Inconsistency::from);
    }
    monitor::check_outcome(&status, shadow::assignments());
    kani::cover!(unsafe { monitor::PROPAGATIONS } > 0, "propagation");
    kani::cover!(status.is_err(), "domain emptied");
    core::mem::forget(status);
    core::mem::forget(handler);
    core::mem::forget(parameters);
    core::mem::forget(profile);
    core::mem::forget(tasks);
    core::mem::forget(task);
    env.forget();
}

macro_rules! cumulative_harness {
    ($name:ident, $np:expr, $kind:expr, $holes:expr) => {
        verif_harness! {
            #[kani::unwind(10)]
            fn $name() {
                propagate_task($np, $kind, $holes);
            }
        }
    };
}

cumulative_harness!(cumulative_naive_1, 1, CumulativeExplanationType::Naive, false);
cumulative_harness!(cumulative_big_step_1, 1, CumulativeExplanationType::BigStep, false);
cumulative_harness!(cumulative_pointwise_1, 1, CumulativeExplanationType::Pointwise, false);
cumulative_harness!(cumulative_big_step_1_holes, 1, CumulativeExplanationType::BigStep, true);

// Holes with pointwise explanations; durations up to 3 so that a profile can be 3 time points
// long (the explanation point of a removal before the profile start is
// min(time_point + duration - 1, middle of the profile), which differs from the profile start
// only then).
verif_harness! {
    #[kani::unwind(10)]
    fn cumulative_pointwise_1_holes() {
        propagate_task_with(1, CumulativeExplanationType::Pointwise, true, DMAX_LIMIT);
    }
}

cumulative_harness!(cumulative_naive_2, 2, CumulativeExplanationType::Naive, false);
cumulative_harness!(cumulative_big_step_2, 2, CumulativeExplanationType::BigStep, false);
cumulative_harness!(cumulative_pointwise_2, 2, CumulativeExplanationType::Pointwise, false);

/// Conflict explanation of an overloaded (valid) profile.
fn conflict(np: usize, explanation_type: CumulativeExplanationType) {
    let inst = any_instance(np);
    monitor::pick_points(np + 1);
    monitor::set_semantics(sem(&inst, monitor::v), sem(&inst, monitor::w));
    let (tasks, profile) = build(&inst);
    kani::assume(profile.height > inst.capacity);
    kani::cover!(true, "overloaded valid profile");
    let env = Env::new();
    let nogood = crate::propagators::create_conflict_explanation(env.read_ctx(), &profile, explanation_type);
    let status: PropagationStatusCP = Err(Inconsistency::Conflict(nogood));
    monitor::check_outcome(&status, shadow::assignments());
    core::mem::forget(status);
    core::mem::forget(profile);
    core::mem::forget(tasks);
    env.forget();
}

macro_rules! cumulative_conflict_harness {
    ($name:ident, $np:expr, $kind:expr) => {
        verif_harness! {
            #[kani::unwind(5)]
            fn $name() {
                conflict($np, $kind);
            }
        }
    };
}

cumulative_conflict_harness!(cumulative_conflict_naive_2, 2, CumulativeExplanationType::Naive);
cumulative_conflict_harness!(cumulative_conflict_big_step_2, 2, CumulativeExplanationType::BigStep);
cumulative_conflict_harness!(cumulative_conflict_pointwise_2, 2, CumulativeExplanationType::Pointwise);

// K-tasks: `create_tasks` keeps exactly the tasks that can ever be running with a positive usage.
verif_harness! {
    #[kani::unwind(6)]
    fn cumulative_create_tasks_filters() {
        use crate::propagators::ArgTask;
        let d: [i32; 3] = kani::any();
        let u: [i32; 3] = kani::any();
        let _ = shadow::assignments();
        let mut args: Vec<ArgTask<DomainId>> = Vec::with_capacity(3);
        unroll!(i in [0, 1, 2] {
            kani::assume(d[i] >= 0 && d[i] <= 3 && u[i] >= 0 && u[i] <= 3);
            args.push(ArgTask {
                start_time: DomainId::new((i + 1) as u32),
                processing_time: d[i],
                resource_usage: u[i],
            });
        });
        let tasks = crate::propagators::util::create_tasks(&args);
        let mut expected = 0;
        unroll!(i in [0, 1, 2] {
            if d[i] > 0 && u[i] > 0 {
                expected += 1;
            }
        });
        assert!(tasks.len() == expected, "[K-tasks] create_tasks keeps a task that never runs or uses nothing, or drops one that does");
        unroll!(k in [0, 1, 2] {
            if k < tasks.len() {
                assert!(tasks[k].processing_time > 0 && tasks[k].resource_usage > 0, "[K-tasks] a task with zero duration or zero usage reaches the propagators");
                let var = tasks[k].start_variable.id as usize;
                assert!(var >= 1 && var <= 3 && tasks[k].processing_time == d[var - 1] && tasks[k].resource_usage == u[var - 1], "[K-tasks] create_tasks changes the duration or usage of a task");
            }
        });
        core::mem::forget(tasks);
        core::mem::forget(args);
    }
}
