// S1 — the domain store the harnesses talk to (see DESIGN.md §2.2).
//
// cfg(kani): a fixed-size shadow store. The reading / writing primitives of the real
// `Assignments` are redirected to it with `#[kani::stub]`. Contract, which is exactly the
// documented meaning of `Assignments`:
//   dom(d) = { v | LB[d] <= v <= UB[d], v not in HOLE[d][..NHOLE[d]] }
//   bounds skip over holes; writes only shrink; `Err(EmptyDomain)` iff LB > UB afterwards.
// Everything layered on top (`evaluate_predicate`, `AffineView`, `Literal`, `ReadDomains`,
// `IntegerVariable` plumbing, the propagators) is the real code.
//
// cfg(pumpkin_verif) (native replay): the same API on the real `Assignments`, nothing stubbed.

#[cfg(not(kani))]
use super::kani;
use crate::engine::reason::ReasonRef;
use crate::engine::variables::DomainId;
use crate::engine::Assignments;
use crate::engine::EmptyDomain;

/// Number of domains. Id 0 is the solver's dummy "always true" variable (fixed to 1).
pub(crate) const NV: usize = 5;
/// Hole capacity per domain.
pub(crate) const NH: usize = 2;
/// When set by a harness, an execution that needs more than NH holes in one domain ends there
/// (bounded exploration) instead of failing the harness.
pub(crate) static mut CUT_AT_HOLE_CAPACITY: bool = false;

/// Harness-internal loops are written as straight-line code so that the `#[kani::unwind]` bound
/// of a harness only has to cover the loops of the code under test.
macro_rules! unroll {
    ($i:ident in [$($v:expr),*] $body:block) => {
        $( { let $i: usize = $v; $body } )*
    };
}
pub(crate) use unroll;

/// The real `Assignments` object handed to the code under test. Under Kani it only carries the
/// (empty) trail; under native replay it is the real thing.
pub(crate) static mut ASSIGNMENTS: Option<Assignments> = None;

pub(crate) fn assignments() -> &'static mut Assignments {
    unsafe {
        if ASSIGNMENTS.is_none() {
            let mut assignments = Assignments::default();
            // Under Kani the real object only provides `self.domains[id]` for the domain
            // iterator stub; the placeholder bounds are never read through the stubs.
            #[cfg(kani)]
            {
                unroll!(_i in [1, 2, 3, 4] {
                    let _ = assignments.grow(i32::MIN, i32::MIN);
                });
            }
            ASSIGNMENTS = Some(assignments);
        }
        ASSIGNMENTS.as_mut().unwrap()
    }
}

#[cfg(kani)]
mod backend {
    use super::*;

    // The store is a set of *scalars* selected by `match`, not arrays: the code under test reads
    // domains through ids that come out of heap memory (symbolic indices for CBMC), and CBMC's
    // array theory grows quadratically with the number of such reads (measured: 5 M variables
    // for the two-variable maximum propagator with arrays).
    #[derive(Clone, Copy)]
    pub(crate) struct Dom {
        pub(crate) lb: i32,
        pub(crate) ub: i32,
        pub(crate) h0: i32,
        pub(crate) h1: i32,
        pub(crate) nholes: usize,
        /// Pending domain events, as the real `EventSink` would hold them
        /// (bit 0 Assign, 1 LowerBound, 2 UpperBound, 3 Removal).
        pub(crate) events: u8,
    }

    const FIXED_ONE: Dom = Dom { lb: 1, ub: 1, h0: 0, h1: 0, nholes: 0, events: 0 };
    const EMPTY: Dom = Dom { lb: 0, ub: 0, h0: 0, h1: 0, nholes: 0, events: 0 };

    static mut D0: Dom = FIXED_ONE;
    static mut D1: Dom = EMPTY;
    static mut D2: Dom = EMPTY;
    static mut D3: Dom = EMPTY;
    static mut D4: Dom = EMPTY;
    /// Snapshot taken by `push_level` (one level of backtracking is modelled).
    static mut SAVED: [Dom; NV] = [EMPTY; NV];

    #[inline(always)]
    fn get(d: usize) -> Dom {
        unsafe {
            match d {
                0 => D0,
                1 => D1,
                2 => D2,
                3 => D3,
                _ => D4,
            }
        }
    }

    #[inline(always)]
    fn put(d: usize, value: Dom) {
        unsafe {
            match d {
                0 => D0 = value,
                1 => D1 = value,
                2 => D2 = value,
                3 => D3 = value,
                _ => D4 = value,
            }
        }
    }

    pub(crate) fn push_level() {
        unsafe {
            SAVED = [D0, D1, D2, D3, D4];
        }
        // the real trail carries the decision level the code under test can ask for
        assignments().increase_decision_level();
    }

    pub(crate) fn pop_level() {
        unsafe {
            D0 = SAVED[0];
            D1 = SAVED[1];
            D2 = SAVED[2];
            D3 = SAVED[3];
            D4 = SAVED[4];
            D0.events = 0;
            D1.events = 0;
            D2.events = 0;
            D3.events = 0;
            D4.events = 0;
        }
        let level = assignments().get_decision_level();
        assert!(level >= 1, "[HARNESS] pop_level without push_level");
        let _ = assignments().trail.synchronise(level - 1).count();
    }

    pub(crate) fn take_events(d: usize) -> u8 {
        let mut dom = get(d);
        let e = dom.events;
        dom.events = 0;
        put(d, dom);
        e
    }

    #[inline(always)]
    pub(crate) fn lb(d: usize) -> i32 {
        get(d).lb
    }
    #[inline(always)]
    pub(crate) fn ub(d: usize) -> i32 {
        get(d).ub
    }

    fn hole_in(dom: &Dom, v: i32) -> bool {
        (dom.nholes >= 1 && dom.h0 == v) || (dom.nholes >= 2 && dom.h1 == v)
    }

    pub(crate) fn contains(d: usize, v: i32) -> bool {
        let dom = get(d);
        dom.lb <= v && v <= dom.ub && !hole_in(&dom, v)
    }

    /// Domains are created in id order 1, 2, ...; `holes` are arbitrary values different from
    /// both bounds and from each other (they may lie outside the bounds, as stale holes do).
    pub(crate) fn create(d: usize, l: i32, u: i32, holes: &[i32]) {
        assert!(d >= 1 && d < NV, "[HARNESS] domain id outside the shadow store");
        let dom = Dom {
            lb: l,
            ub: u,
            h0: if holes.len() >= 1 { holes[0] } else { 0 },
            h1: if holes.len() >= 2 { holes[1] } else { 0 },
            nholes: holes.len(),
            events: 0,
        };
        put(d, dom);
    }

    fn skip_holes_up(dom: &mut Dom) {
        // at most NH holes can be skipped
        unroll!(_k in [0, 1] {
            if dom.lb <= dom.ub && hole_in(dom, dom.lb) {
                dom.lb += 1;
            }
        });
    }

    fn skip_holes_down(dom: &mut Dom) {
        unroll!(_k in [0, 1] {
            if dom.lb <= dom.ub && hole_in(dom, dom.ub) {
                dom.ub -= 1;
            }
        });
    }

    fn verify(dom: &Dom) -> Result<(), EmptyDomain> {
        if dom.lb > dom.ub {
            Err(EmptyDomain)
        } else {
            Ok(())
        }
    }

    fn assign_event_if_fixed(dom: &mut Dom) {
        if dom.lb == dom.ub {
            dom.events |= EV_ASSIGN;
        }
    }

    pub(crate) fn tighten_lb(d: usize, new_lb: i32) -> Result<(), EmptyDomain> {
        let mut dom = get(d);
        if new_lb <= dom.lb {
            return verify(&dom);
        }
        dom.lb = new_lb;
        dom.events |= EV_LOWER;
        skip_holes_up(&mut dom);
        assign_event_if_fixed(&mut dom);
        put(d, dom);
        verify(&dom)
    }

    pub(crate) fn tighten_ub(d: usize, new_ub: i32) -> Result<(), EmptyDomain> {
        let mut dom = get(d);
        if new_ub >= dom.ub {
            return verify(&dom);
        }
        dom.ub = new_ub;
        dom.events |= EV_UPPER;
        skip_holes_down(&mut dom);
        assign_event_if_fixed(&mut dom);
        put(d, dom);
        verify(&dom)
    }

    pub(crate) fn remove(d: usize, v: i32) -> Result<(), EmptyDomain> {
        let mut dom = get(d);
        if !(dom.lb <= v && v <= dom.ub && !hole_in(&dom, v)) {
            return verify(&dom);
        }
        dom.events |= EV_REMOVAL;
        if dom.lb == v && dom.ub == v {
            // the domain becomes empty (canonical empty interval, no arithmetic on `v`)
            dom.lb = 1;
            dom.ub = 0;
            put(d, dom);
            return Err(EmptyDomain);
        }
        if dom.lb == v {
            dom.lb = v + 1;
            dom.events |= EV_LOWER;
            skip_holes_up(&mut dom);
        } else if dom.ub == v {
            dom.ub = v - 1;
            dom.events |= EV_UPPER;
            skip_holes_down(&mut dom);
        } else {
            // A harness whose propagator makes more holes than the store can hold is
            // reported as broken rather than silently truncated.
            if unsafe { CUT_AT_HOLE_CAPACITY } {
                // opt-in (stated in the harness' bounds): executions that need more holes are
                // cut here, after every removal that fitted has been checked
                kani::assume(dom.nholes < NH);
            }
            assert!(dom.nholes < NH, "[HARNESS] shadow store hole capacity exceeded");
            if dom.nholes == 0 {
                dom.h0 = v;
            } else {
                dom.h1 = v;
            }
            dom.nholes += 1;
        }
        assign_event_if_fixed(&mut dom);
        put(d, dom);
        verify(&dom)
    }

    pub(crate) fn assign(d: usize, v: i32) -> Result<(), EmptyDomain> {
        if lb(d) < v {
            tighten_lb(d, v)?;
        }
        if ub(d) > v {
            tighten_ub(d, v)?;
        }
        verify(&get(d))
    }
}

#[cfg(not(kani))]
mod backend {
    use super::*;

    fn id(d: usize) -> DomainId {
        DomainId::new(d as u32)
    }

    pub(crate) fn lb(d: usize) -> i32 {
        assignments().get_lower_bound(id(d))
    }
    pub(crate) fn ub(d: usize) -> i32 {
        assignments().get_upper_bound(id(d))
    }
    pub(crate) fn contains(d: usize, v: i32) -> bool {
        assignments().is_value_in_domain(id(d), v)
    }
    pub(crate) fn create(d: usize, l: i32, u: i32, holes: &[i32]) {
        let created = assignments().grow(l, u);
        assert!(created.id as usize == d, "[REPLAY] domains must be created in id order");
        for h in holes {
            // stale holes outside the bounds have no counterpart in a fresh real domain
            let _ = assignments().remove_value_from_domain(created, *h, None);
        }
    }
    pub(crate) fn tighten_lb(d: usize, v: i32) -> Result<(), EmptyDomain> {
        assignments().tighten_lower_bound(id(d), v, None)
    }
    pub(crate) fn tighten_ub(d: usize, v: i32) -> Result<(), EmptyDomain> {
        assignments().tighten_upper_bound(id(d), v, None)
    }
    pub(crate) fn remove(d: usize, v: i32) -> Result<(), EmptyDomain> {
        assignments().remove_value_from_domain(id(d), v, None)
    }
    pub(crate) fn assign(d: usize, v: i32) -> Result<(), EmptyDomain> {
        assignments().make_assignment(id(d), v, None)
    }

    static mut EVENTS: [u8; NV] = [0; NV];

    fn pull_events() {
        use crate::engine::IntDomainEvent;
        let events: Vec<_> = assignments().drain_domain_events().collect();
        for (event, domain) in events {
            let bit = match event {
                IntDomainEvent::Assign => EV_ASSIGN,
                IntDomainEvent::LowerBound => EV_LOWER,
                IntDomainEvent::UpperBound => EV_UPPER,
                IntDomainEvent::Removal => EV_REMOVAL,
            };
            unsafe {
                if (domain.id as usize) < NV {
                    EVENTS[domain.id as usize] |= bit;
                }
            }
        }
    }

    pub(crate) fn take_events(d: usize) -> u8 {
        pull_events();
        unsafe {
            let e = EVENTS[d];
            EVENTS[d] = 0;
            e
        }
    }

    pub(crate) fn push_level() {
        assignments().increase_decision_level();
    }

    pub(crate) fn pop_level() {
        let level = assignments().get_decision_level();
        assert!(level >= 1, "[REPLAY] pop_level without push_level");
        // The harness dispatches backtrack notifications itself from the domain differences.
        let _ = assignments().synchronise(level - 1, usize::MAX, false);
        pull_events();
        unsafe {
            EVENTS = [0; NV];
        }
    }
}

pub(crate) const EV_ASSIGN: u8 = 1;
pub(crate) const EV_LOWER: u8 = 2;
pub(crate) const EV_UPPER: u8 = 4;
pub(crate) const EV_REMOVAL: u8 = 8;

pub(crate) use backend::assign;
pub(crate) use backend::pop_level;
pub(crate) use backend::push_level;
pub(crate) use backend::take_events;
pub(crate) use backend::contains;
pub(crate) use backend::lb;
pub(crate) use backend::remove;
pub(crate) use backend::tighten_lb;
pub(crate) use backend::tighten_ub;
pub(crate) use backend::ub;

pub(crate) fn is_fixed(d: usize) -> bool {
    lb(d) == ub(d)
}

/// Create domain `d` as an arbitrary non-empty interval with `holes` arbitrary holes.
pub(crate) fn init_any(d: usize, holes: usize) {
    let l: i32 = kani::any();
    let u: i32 = kani::any();
    kani::assume(l <= u);
    init_range(d, l, u, holes);
}

/// Arbitrary non-empty sub-interval of `[lo, hi]`.
pub(crate) fn init_within(d: usize, lo: i32, hi: i32, holes: usize) {
    let l: i32 = kani::any();
    let u: i32 = kani::any();
    kani::assume(lo <= l && l <= u && u <= hi);
    init_range(d, l, u, holes);
}

pub(crate) fn init_range(d: usize, l: i32, u: i32, holes: usize) {
    let mut values = [0i32; NH];
    assert!(holes <= NH, "[HARNESS] more holes requested than the store can hold");
    if holes >= 1 {
        let h: i32 = kani::any();
        kani::assume(h != l && h != u);
        values[0] = h;
    }
    if holes >= 2 {
        let h: i32 = kani::any();
        kani::assume(h != l && h != u && h != values[0]);
        values[1] = h;
    }
    backend::create(d, l, u, &values[..holes]);
}

// ---------------------------------------------------------------------------------------------
// Stub twins (Kani only). They are inherent methods because Kani resolves `#[kani::stub(a, b)]`
// generics (the impl lifetime) only when `b` has the same shape as `a`.
// ---------------------------------------------------------------------------------------------
#[cfg(kani)]
impl Assignments {
    pub(crate) fn stub_get_lower_bound(&self, domain_id: DomainId) -> i32 {
        lb(domain_id.id as usize)
    }

    pub(crate) fn stub_get_upper_bound(&self, domain_id: DomainId) -> i32 {
        ub(domain_id.id as usize)
    }

    pub(crate) fn stub_is_value_in_domain(&self, domain_id: DomainId, value: i32) -> bool {
        contains(domain_id.id as usize, value)
    }

    pub(crate) fn stub_tighten_lower_bound(
        &mut self,
        domain_id: DomainId,
        new_lower_bound: i32,
        _reason: Option<ReasonRef>,
    ) -> Result<(), EmptyDomain> {
        tighten_lb(domain_id.id as usize, new_lower_bound)
    }

    pub(crate) fn stub_tighten_upper_bound(
        &mut self,
        domain_id: DomainId,
        new_upper_bound: i32,
        _reason: Option<ReasonRef>,
    ) -> Result<(), EmptyDomain> {
        tighten_ub(domain_id.id as usize, new_upper_bound)
    }

    pub(crate) fn stub_remove_value_from_domain(
        &mut self,
        domain_id: DomainId,
        removed_value_from_domain: i32,
        _reason: Option<ReasonRef>,
    ) -> Result<(), EmptyDomain> {
        remove(domain_id.id as usize, removed_value_from_domain)
    }

    pub(crate) fn stub_make_assignment(
        &mut self,
        domain_id: DomainId,
        assigned_value: i32,
        _reason: Option<ReasonRef>,
    ) -> Result<(), EmptyDomain> {
        assign(domain_id.id as usize, assigned_value)
    }
}

/// `IntegerDomainIterator::next` over the shadow store: yields the values of dom(d) in increasing
/// order. The real iterator's cursor field is reused; it starts at the placeholder `i32::MIN`.
#[cfg(kani)]
impl crate::engine::IntegerDomainIterator<'_> {
    pub(crate) fn stub_next(&mut self) -> Option<i32> {
        let (domain_id, cursor) = self.verif_parts();
        let d = domain_id.id as usize;
        if lb(d) > ub(d) {
            return None;
        }
        if *cursor < lb(d) {
            *cursor = lb(d);
        }
        let result = if *cursor <= ub(d) { Some(*cursor) } else { None };
        if result.is_some() {
            assert!(*cursor < i32::MAX, "[HARNESS] domain iterator stub reached i32::MAX");
            *cursor += 1;
            // at most NH holes can be skipped
            unroll!(_k in [0, 1] {
                if *cursor <= ub(d) && !contains(d, *cursor) {
                    *cursor += 1;
                }
            });
        }
        result
    }
}

// ---------------------------------------------------------------------------------------------
// S7 (Kani only): the trailed integers of `TrailedAssignments` in a fixed array with one
// snapshot level. Contract: `grow` hands out fresh cells, `read` returns the last value written,
// `synchronise(0)` restores the values of the last `increase_decision_level`. (The real structure
// is a `KeyedVec<i64>` plus a trail of changes pushed under symbolic conditions; the backtracking
// harnesses ran out of memory with it.)
// ---------------------------------------------------------------------------------------------
#[cfg(kani)]
pub(crate) mod trailed {
    use crate::containers::StorageKey;
    use crate::engine::TrailedAssignments;
    use crate::engine::TrailedInt;

    const NT: usize = 6;
    static mut CELL: [i64; NT] = [0; NT];
    static mut SAVED: [i64; NT] = [0; NT];
    static mut USED: usize = 0;

    #[inline(always)]
    fn get(i: usize) -> i64 {
        unsafe {
            match i {
                0 => CELL[0],
                1 => CELL[1],
                2 => CELL[2],
                3 => CELL[3],
                4 => CELL[4],
                _ => CELL[5],
            }
        }
    }

    #[inline(always)]
    fn set(i: usize, v: i64) {
        unsafe {
            match i {
                0 => CELL[0] = v,
                1 => CELL[1] = v,
                2 => CELL[2] = v,
                3 => CELL[3] = v,
                4 => CELL[4] = v,
                _ => CELL[5] = v,
            }
        }
    }

    impl TrailedAssignments {
        pub(crate) fn stub_grow(&mut self, initial_value: i64) -> TrailedInt {
            unsafe {
                assert!(USED < NT, "[HARNESS] more trailed integers than the shadow store holds");
                let index = USED;
                USED += 1;
                set(index, initial_value);
                TrailedInt::create_from_index(index)
            }
        }

        pub(crate) fn stub_read(&self, stateful_int: TrailedInt) -> i64 {
            get(stateful_int.index())
        }

        pub(crate) fn stub_add_assign(&mut self, stateful_int: TrailedInt, addition: i64) {
            let i = stateful_int.index();
            set(i, get(i) + addition);
        }

        pub(crate) fn stub_assign(&mut self, stateful_int: TrailedInt, value: i64) {
            set(stateful_int.index(), value);
        }

        pub(crate) fn stub_increase_decision_level(&mut self) {
            unsafe {
                SAVED = CELL;
            }
        }

        pub(crate) fn stub_synchronise(&mut self, _new_decision_level: usize) {
            unsafe {
                CELL = SAVED;
            }
        }
    }
}
