// S1 — the domain store the harnesses talk to (see DESIGN.md §2.2).
//
// cfg(kani): a fixed-size shadow store. The reading / writing primitives of the real
// `Assignments` are redirected to it with `#[kani::stub]`. Contract, which is exactly the
// documented meaning of `Assignments`:
//   dom(d) = { v | LB[d] <= v <= UB[d], v not in HOLE[d][..NHOLE[d]] }
//   bounds skip over holes; writes only shrink; `Err(EmptyDomain)` iff LB > UB afterwards.
// Everything layered on top (`evaluate_predicate`, `AffineView`, `Literal`, `ReadDomains`,
// `IntegerVariable` plumbing, the propagators) is the real code.
//
// cfg(pumpkin_verif) (native replay): the same API on the real `Assignments`, nothing stubbed.

#[cfg(not(kani))]
use super::kani;
use crate::engine::reason::ReasonRef;
use crate::engine::variables::DomainId;
use crate::engine::Assignments;
use crate::engine::EmptyDomain;

/// Number of domains. Id 0 is the solver's dummy "always true" variable (fixed to 1).
pub(crate) const NV: usize = 6;
/// Hole capacity per domain.
pub(crate) const NH: usize = 3;

/// The real `Assignments` object handed to the code under test. Under Kani it only carries the
/// (empty) trail; under native replay it is the real thing.
pub(crate) static mut ASSIGNMENTS: Option<Assignments> = None;

pub(crate) fn assignments() -> &'static mut Assignments {
    unsafe {
        if ASSIGNMENTS.is_none() {
            let mut assignments = Assignments::default();
            // Under Kani the real object only provides `self.domains[id]` for the domain
            // iterator stub; the placeholder bounds are never read through the stubs.
            #[cfg(kani)]
            {
                let mut i = 1;
                while i < NV {
                    let _ = assignments.grow(i32::MIN, i32::MIN);
                    i += 1;
                }
            }
            ASSIGNMENTS = Some(assignments);
        }
        ASSIGNMENTS.as_mut().unwrap()
    }
}

#[cfg(kani)]
mod backend {
    use super::*;

    pub(crate) static mut LB: [i32; NV] = [1, 0, 0, 0, 0, 0];
    pub(crate) static mut UB: [i32; NV] = [1, 0, 0, 0, 0, 0];
    pub(crate) static mut HOLE: [[i32; NH]; NV] = [[0; NH]; NV];
    pub(crate) static mut NHOLE: [usize; NV] = [0; NV];
    /// Pending domain events per domain, as the real `EventSink` would hold them
    /// (bit 0 Assign, 1 LowerBound, 2 UpperBound, 3 Removal).
    pub(crate) static mut EVENTS: [u8; NV] = [0; NV];
    /// Snapshot taken by `push_level` (one level of backtracking is modelled).
    static mut SAVED: ([i32; NV], [i32; NV], [[i32; NH]; NV], [usize; NV]) =
        ([0; NV], [0; NV], [[0; NH]; NV], [0; NV]);

    pub(crate) fn push_level() {
        unsafe {
            SAVED = (LB, UB, HOLE, NHOLE);
        }
    }

    pub(crate) fn pop_level() {
        unsafe {
            LB = SAVED.0;
            UB = SAVED.1;
            HOLE = SAVED.2;
            NHOLE = SAVED.3;
            EVENTS = [0; NV];
        }
    }

    pub(crate) fn take_events(d: usize) -> u8 {
        unsafe {
            let e = EVENTS[d];
            EVENTS[d] = 0;
            e
        }
    }

    fn event(d: usize, bit: u8) {
        unsafe {
            EVENTS[d] |= bit;
        }
    }

    fn assign_event_if_fixed(d: usize) {
        if lb(d) == ub(d) {
            event(d, EV_ASSIGN);
        }
    }

    #[inline(always)]
    pub(crate) fn lb(d: usize) -> i32 {
        unsafe { LB[d] }
    }
    #[inline(always)]
    pub(crate) fn ub(d: usize) -> i32 {
        unsafe { UB[d] }
    }

    pub(crate) fn is_hole(d: usize, v: i32) -> bool {
        let mut i = 0;
        let mut found = false;
        while i < NH {
            unsafe {
                if i < NHOLE[d] && HOLE[d][i] == v {
                    found = true;
                }
            }
            i += 1;
        }
        found
    }

    pub(crate) fn contains(d: usize, v: i32) -> bool {
        lb(d) <= v && v <= ub(d) && !is_hole(d, v)
    }

    /// Domains are created in id order 1, 2, ...; `holes` are arbitrary values different from
    /// both bounds and from each other (they may lie outside the bounds, as stale holes do).
    pub(crate) fn create(d: usize, l: i32, u: i32, holes: &[i32]) {
        unsafe {
            LB[d] = l;
            UB[d] = u;
            NHOLE[d] = holes.len();
            let mut i = 0;
            while i < NH {
                if i < holes.len() {
                    HOLE[d][i] = holes[i];
                }
                i += 1;
            }
        }
    }

    fn skip_holes_up(d: usize) {
        let mut k = 0;
        while k < NH {
            unsafe {
                if LB[d] <= UB[d] && is_hole(d, LB[d]) {
                    LB[d] += 1;
                }
            }
            k += 1;
        }
    }

    fn skip_holes_down(d: usize) {
        let mut k = 0;
        while k < NH {
            unsafe {
                if LB[d] <= UB[d] && is_hole(d, UB[d]) {
                    UB[d] -= 1;
                }
            }
            k += 1;
        }
    }

    fn verify(d: usize) -> Result<(), EmptyDomain> {
        if lb(d) > ub(d) {
            Err(EmptyDomain)
        } else {
            Ok(())
        }
    }

    pub(crate) fn tighten_lb(d: usize, new_lb: i32) -> Result<(), EmptyDomain> {
        if new_lb <= lb(d) {
            return verify(d);
        }
        unsafe {
            LB[d] = new_lb;
        }
        event(d, EV_LOWER);
        skip_holes_up(d);
        assign_event_if_fixed(d);
        verify(d)
    }

    pub(crate) fn tighten_ub(d: usize, new_ub: i32) -> Result<(), EmptyDomain> {
        if new_ub >= ub(d) {
            return verify(d);
        }
        unsafe {
            UB[d] = new_ub;
        }
        event(d, EV_UPPER);
        skip_holes_down(d);
        assign_event_if_fixed(d);
        verify(d)
    }

    pub(crate) fn remove(d: usize, v: i32) -> Result<(), EmptyDomain> {
        if !contains(d, v) {
            return verify(d);
        }
        event(d, EV_REMOVAL);
        unsafe {
            if LB[d] == v && UB[d] == v {
                // the domain becomes empty
                UB[d] = v - 1;
                return Err(EmptyDomain);
            }
            if LB[d] == v {
                LB[d] = v + 1;
                event(d, EV_LOWER);
                skip_holes_up(d);
            } else if UB[d] == v {
                UB[d] = v - 1;
                event(d, EV_UPPER);
                skip_holes_down(d);
            } else {
                // A harness whose propagator makes more holes than the store can hold is
                // reported as broken rather than silently truncated.
                assert!(NHOLE[d] < NH, "[HARNESS] shadow store hole capacity exceeded");
                HOLE[d][NHOLE[d]] = v;
                NHOLE[d] += 1;
            }
        }
        assign_event_if_fixed(d);
        verify(d)
    }

    pub(crate) fn assign(d: usize, v: i32) -> Result<(), EmptyDomain> {
        if lb(d) < v {
            tighten_lb(d, v)?;
        }
        if ub(d) > v {
            tighten_ub(d, v)?;
        }
        verify(d)
    }
}

#[cfg(not(kani))]
mod backend {
    use super::*;

    fn id(d: usize) -> DomainId {
        DomainId::new(d as u32)
    }

    pub(crate) fn lb(d: usize) -> i32 {
        assignments().get_lower_bound(id(d))
    }
    pub(crate) fn ub(d: usize) -> i32 {
        assignments().get_upper_bound(id(d))
    }
    pub(crate) fn contains(d: usize, v: i32) -> bool {
        assignments().is_value_in_domain(id(d), v)
    }
    pub(crate) fn create(d: usize, l: i32, u: i32, holes: &[i32]) {
        let created = assignments().grow(l, u);
        assert!(created.id as usize == d, "[REPLAY] domains must be created in id order");
        for h in holes {
            // stale holes outside the bounds have no counterpart in a fresh real domain
            let _ = assignments().remove_value_from_domain(created, *h, None);
        }
    }
    pub(crate) fn tighten_lb(d: usize, v: i32) -> Result<(), EmptyDomain> {
        assignments().tighten_lower_bound(id(d), v, None)
    }
    pub(crate) fn tighten_ub(d: usize, v: i32) -> Result<(), EmptyDomain> {
        assignments().tighten_upper_bound(id(d), v, None)
    }
    pub(crate) fn remove(d: usize, v: i32) -> Result<(), EmptyDomain> {
        assignments().remove_value_from_domain(id(d), v, None)
    }
    pub(crate) fn assign(d: usize, v: i32) -> Result<(), EmptyDomain> {
        assignments().make_assignment(id(d), v, None)
    }

    static mut EVENTS: [u8; NV] = [0; NV];

    fn pull_events() {
        use crate::engine::IntDomainEvent;
        let events: Vec<_> = assignments().drain_domain_events().collect();
        for (event, domain) in events {
            let bit = match event {
                IntDomainEvent::Assign => EV_ASSIGN,
                IntDomainEvent::LowerBound => EV_LOWER,
                IntDomainEvent::UpperBound => EV_UPPER,
                IntDomainEvent::Removal => EV_REMOVAL,
            };
            unsafe {
                if (domain.id as usize) < NV {
                    EVENTS[domain.id as usize] |= bit;
                }
            }
        }
    }

    pub(crate) fn take_events(d: usize) -> u8 {
        pull_events();
        unsafe {
            let e = EVENTS[d];
            EVENTS[d] = 0;
            e
        }
    }

    pub(crate) fn push_level() {
        assignments().increase_decision_level();
    }

    pub(crate) fn pop_level() {
        let level = assignments().get_decision_level();
        assert!(level >= 1, "[REPLAY] pop_level without push_level");
        // The harness dispatches backtrack notifications itself from the domain differences.
        let _ = assignments().synchronise(level - 1, usize::MAX, false);
        pull_events();
        unsafe {
            EVENTS = [0; NV];
        }
    }
}

pub(crate) const EV_ASSIGN: u8 = 1;
pub(crate) const EV_LOWER: u8 = 2;
pub(crate) const EV_UPPER: u8 = 4;
pub(crate) const EV_REMOVAL: u8 = 8;

pub(crate) use backend::assign;
pub(crate) use backend::pop_level;
pub(crate) use backend::push_level;
pub(crate) use backend::take_events;
pub(crate) use backend::contains;
pub(crate) use backend::lb;
pub(crate) use backend::remove;
pub(crate) use backend::tighten_lb;
pub(crate) use backend::tighten_ub;
pub(crate) use backend::ub;

pub(crate) fn is_fixed(d: usize) -> bool {
    lb(d) == ub(d)
}

/// Create domain `d` as an arbitrary non-empty interval with `holes` arbitrary holes.
pub(crate) fn init_any(d: usize, holes: usize) {
    let l: i32 = kani::any();
    let u: i32 = kani::any();
    kani::assume(l <= u);
    init_range(d, l, u, holes);
}

/// Arbitrary non-empty sub-interval of `[lo, hi]`.
pub(crate) fn init_within(d: usize, lo: i32, hi: i32, holes: usize) {
    let l: i32 = kani::any();
    let u: i32 = kani::any();
    kani::assume(lo <= l && l <= u && u <= hi);
    init_range(d, l, u, holes);
}

pub(crate) fn init_range(d: usize, l: i32, u: i32, holes: usize) {
    let mut values = [0i32; NH];
    let mut i = 0;
    while i < NH {
        if i < holes {
            let h: i32 = kani::any();
            kani::assume(h != l && h != u);
            let mut j = 0;
            while j < i {
                kani::assume(values[j] != h);
                j += 1;
            }
            values[i] = h;
        }
        i += 1;
    }
    backend::create(d, l, u, &values[..holes]);
}

// ---------------------------------------------------------------------------------------------
// Stub twins (Kani only). They are inherent methods because Kani resolves `#[kani::stub(a, b)]`
// generics (the impl lifetime) only when `b` has the same shape as `a`.
// ---------------------------------------------------------------------------------------------
#[cfg(kani)]
impl Assignments {
    pub(crate) fn stub_get_lower_bound(&self, domain_id: DomainId) -> i32 {
        lb(domain_id.id as usize)
    }

    pub(crate) fn stub_get_upper_bound(&self, domain_id: DomainId) -> i32 {
        ub(domain_id.id as usize)
    }

    pub(crate) fn stub_is_value_in_domain(&self, domain_id: DomainId, value: i32) -> bool {
        contains(domain_id.id as usize, value)
    }

    pub(crate) fn stub_tighten_lower_bound(
        &mut self,
        domain_id: DomainId,
        new_lower_bound: i32,
        _reason: Option<ReasonRef>,
    ) -> Result<(), EmptyDomain> {
        tighten_lb(domain_id.id as usize, new_lower_bound)
    }

    pub(crate) fn stub_tighten_upper_bound(
        &mut self,
        domain_id: DomainId,
        new_upper_bound: i32,
        _reason: Option<ReasonRef>,
    ) -> Result<(), EmptyDomain> {
        tighten_ub(domain_id.id as usize, new_upper_bound)
    }

    pub(crate) fn stub_remove_value_from_domain(
        &mut self,
        domain_id: DomainId,
        removed_value_from_domain: i32,
        _reason: Option<ReasonRef>,
    ) -> Result<(), EmptyDomain> {
        remove(domain_id.id as usize, removed_value_from_domain)
    }

    pub(crate) fn stub_make_assignment(
        &mut self,
        domain_id: DomainId,
        assigned_value: i32,
        _reason: Option<ReasonRef>,
    ) -> Result<(), EmptyDomain> {
        assign(domain_id.id as usize, assigned_value)
    }
}

/// `IntegerDomainIterator::next` over the shadow store: yields the values of dom(d) in increasing
/// order. The real iterator's cursor field is reused; it starts at the placeholder `i32::MIN`.
#[cfg(kani)]
impl crate::engine::IntegerDomainIterator<'_> {
    pub(crate) fn stub_next(&mut self) -> Option<i32> {
        let (domain_id, cursor) = self.verif_parts();
        let d = domain_id.id as usize;
        if lb(d) > ub(d) {
            return None;
        }
        if *cursor < lb(d) {
            *cursor = lb(d);
        }
        let result = if *cursor <= ub(d) { Some(*cursor) } else { None };
        if result.is_some() {
            assert!(*cursor < i32::MAX, "[HARNESS] domain iterator stub reached i32::MAX");
            *cursor += 1;
            // at most NH holes can be skipped
            let mut k = 0;
            while k < NH {
                if *cursor <= ub(d) && !contains(d, *cursor) {
                    *cursor += 1;
                }
                k += 1;
            }
        }
        result
    }
}
