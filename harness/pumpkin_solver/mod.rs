// Out-of-tree harnesses for pumpkin-solver, compiled into the crate through the hook at the end
// of `pumpkin-solver/src/lib.rs`. Two modes (see /verif/DESIGN.md §2, §5):
//
// * cfg(kani): bounded model checking. Symbolic inputs come from `kani::any()`, the domain store
//   is the shadow store S1 (stubs), `ReasonStore::push` and `register` are stubbed.
// * cfg(pumpkin_verif): native replay of a counterexample. The *same* harness bodies run against
//   the real, unstubbed engine objects; `kani::any()` pops the solver's concrete values.

macro_rules! verif_mod {
    ($name:ident, $file:literal) => {
        pub(crate) mod $name {
            include!(concat!(env!("PUMPKIN_VERIF_HARNESS"), "/pumpkin_solver/", $file));
        }
    };
}

#[cfg(not(kani))]
verif_mod!(kani, "native_kani.rs");

verif_mod!(shadow, "shadow.rs");
verif_mod!(monitor, "monitor.rs");
verif_mod!(env, "env.rs");
verif_mod!(h_linear, "h_linear.rs");
verif_mod!(h_arith, "h_arith.rs");
verif_mod!(h_element, "h_element.rs");
verif_mod!(h_reified, "h_reified.rs");
verif_mod!(h_wrapper, "h_wrapper.rs");
verif_mod!(h_reified_ne, "h_reified_ne.rs");
verif_mod!(h_e2, "h_e2.rs");
verif_mod!(h_branching, "h_branching.rs");
verif_mod!(h_kernels, "h_kernels.rs");
verif_mod!(h_cumulative, "h_cumulative.rs");
verif_mod!(h_timetable, "h_timetable.rs");
// native replay targets only (a live `Solver`; never a Kani harness)
#[cfg(not(kani))]
verif_mod!(h_opt, "h_opt.rs");

#[cfg(not(kani))]
verif_mod!(dispatch, "dispatch.rs");
#[cfg(not(kani))]
pub use dispatch::replay_entry;
