// Native replay target of the E2 (MIR->SMT) query on `LinearSatUnsat::strengthen` (C04). Not a
// Kani harness (the module is compiled for cfg(pumpkin_verif) only): a live `Solver` is out of
// reach of CBMC. The body drives the public API so that the first solution found has the
// objective value `best` chosen by the solver's model; the bound that `strengthen` posts next is
// then exactly the expression the SMT query talks about.
use super::env::verif_harness;
use super::kani;
use crate::optimisation::linear_sat_unsat::LinearSatUnsat;
use crate::optimisation::OptimisationDirection;
use crate::results::OptimisationResult;
use crate::results::ProblemSolution;
use crate::results::SolutionReference;
use crate::termination::Indefinite;
use crate::DefaultBrancher;
use crate::Solver;

verif_harness! {
    fn lsu_minimise_from() {
        let best: i32 = kani::any();
        let mut solver = Solver::default();
        // the default brancher tries the lower bound first: the first solution has value `best`
        let objective = solver.new_bounded_integer(best, best.saturating_add(2));
        let mut termination = Indefinite;
        let mut brancher = solver.default_brancher();
        let callback: fn(&Solver, SolutionReference, &DefaultBrancher) = |_, _, _| {};
        let result = solver.optimise(
            &mut brancher,
            &mut termination,
            LinearSatUnsat::new(OptimisationDirection::Minimise, objective, callback),
        );
        match result {
            OptimisationResult::Optimal(solution) => assert!(
                solution.get_integer_value(objective) == best,
                "[K-strengthen] the reported optimum is not the minimum of the domain"
            ),
            _ => panic!("[K-strengthen] minimising an unconstrained variable did not end with an optimum"),
        }
    }
}
