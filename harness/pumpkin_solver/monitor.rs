// S2 — propagation monitor and S3 — registration stub (see DESIGN.md §2.2, §3).
//
// The real `PropagationContextMut::{set_lower_bound,set_upper_bound,remove,post_predicate}` call
// `tap` (hook under cfg(any(kani, pumpkin_verif))) with the reason they are about to store and
// the predicate they are about to post: the obligations are checked *at the moment of
// propagation*, in the state in which the reason is given. Under Kani `ReasonStore::push` is
// then stubbed away (the store is a heap trail); the write itself goes through the real
// `IntegerVariable` method (and so through every view) down to S1. Under native replay nothing
// is stubbed.

#[cfg(not(kani))]
use super::kani;
use super::shadow;
use super::shadow::unroll;
use super::shadow::NV;
use crate::basic_types::Inconsistency;
use crate::basic_types::PropagationStatusCP;
use crate::engine::domain_events::DomainEvents;
use crate::engine::predicates::predicate::Predicate;
use crate::engine::propagation::ExplanationContext;
use crate::engine::propagation::LocalId;
use crate::engine::propagation::PropagationContextMut;
use crate::engine::propagation::Propagator;
use crate::engine::propagation::PropagatorInitialisationContext;
use crate::engine::reason::Reason;
use crate::engine::reason::ReasonRef;
use crate::engine::reason::ReasonStore;
use crate::engine::propagation::PropagatorId;
use crate::engine::reason::StoredReason;
use crate::engine::variables::IntegerVariable;
use crate::engine::Assignments;
use crate::engine::EmptyDomain;

/// An arbitrary point of Z^NV (not necessarily inside the domains): the "v" of O2/O3.
pub(crate) static mut V: [i32; NV] = [1, 0, 0, 0, 0];
/// sem(theta, V), computed by the harness from the reference semantics.
pub(crate) static mut SEM_V: bool = false;
/// A witness: the "w" of O1/O2.
pub(crate) static mut W: [i32; NV] = [1, 0, 0, 0, 0];
/// W is inside the pre-state and satisfies the constraint.
pub(crate) static mut W_OK: bool = false;
/// Number of variables (ids 1..=NVARS) the harness uses.
pub(crate) static mut NVARS: usize = 0;

/// Number of propagations the monitor has seen.
pub(crate) static mut PROPAGATIONS: usize = 0;
/// Number of lazy reasons resolved.
pub(crate) static mut LAZY_RESOLVED: usize = 0;
/// The propagator under test, for resolving lazy reasons on the spot.
pub(crate) static mut PROPAGATOR: Option<*mut dyn Propagator> = None;

/// Lazy reasons seen during the step, re-evaluated by `recheck_lazy` in the later state.
pub(crate) const NLAZY: usize = 2;
pub(crate) static mut LAZY_CODE: [u64; NLAZY] = [0; NLAZY];
pub(crate) static mut LAZY_PRED: [Option<Predicate>; NLAZY] = [None; NLAZY];
pub(crate) static mut LAZY_REIF: [Option<Predicate>; NLAZY] = [None; NLAZY];
pub(crate) static mut NLAZY_SEEN: usize = 0;

/// Longest reason / conflict explanation the monitor accepts (longer ones fail the harness).
pub(crate) const MAX_REASON: usize = 5;

/// `pt[d]` through a `match` instead of a symbolic array index (see shadow.rs on why).
#[inline(always)]
fn coordinate(pt: &[i32; NV], d: usize) -> i32 {
    match d {
        0 => pt[0],
        1 => pt[1],
        2 => pt[2],
        3 => pt[3],
        _ => pt[4],
    }
}

pub(crate) fn holds_at(p: Predicate, pt: &[i32; NV]) -> bool {
    match p {
        Predicate::LowerBound {
            domain_id,
            lower_bound,
        } => coordinate(pt, domain_id.id as usize) >= lower_bound,
        Predicate::UpperBound {
            domain_id,
            upper_bound,
        } => coordinate(pt, domain_id.id as usize) <= upper_bound,
        Predicate::NotEqual {
            domain_id,
            not_equal_constant,
        } => coordinate(pt, domain_id.id as usize) != not_equal_constant,
        Predicate::Equal {
            domain_id,
            equality_constant,
        } => coordinate(pt, domain_id.id as usize) == equality_constant,
    }
}

/// Pick the arbitrary point V and the witness W for variables 1..=n.
pub(crate) fn pick_points(n: usize) {
    unsafe {
        NVARS = n;
        unroll!(i in [1, 2, 3, 4] {
            if i <= n {
                V[i] = kani::any();
                W[i] = kani::any();
            }
        });
    }
}

/// Is W inside the current shadow domains (variables 1..=NVARS)?
pub(crate) fn w_in_domains() -> bool {
    let mut ok = true;
    unroll!(i in [1, 2, 3, 4] {
        unsafe {
            if i <= NVARS && !shadow::contains(i, W[i]) {
                ok = false;
            }
        }
    });
    ok
}

pub(crate) fn v(i: usize) -> i64 {
    unsafe { V[i] as i64 }
}
pub(crate) fn w(i: usize) -> i64 {
    unsafe { W[i] as i64 }
}

/// Record the reference verdicts: `sem_v` = sem(theta, V); `sem_w` = sem(theta, W).
pub(crate) fn set_semantics(sem_v: bool, sem_w: bool) {
    unsafe {
        SEM_V = sem_v;
        W_OK = sem_w && w_in_domains();
    }
}

fn check_reason_slice(reason: &[Predicate], extra: Option<Predicate>, propagated: Predicate, assignments: &Assignments) {
    // O4: every fact of the reason holds in the state in which the reason is given.
    // O3: sem(theta,V) /\ reason(V) => propagated(V) for the arbitrary point V.
    let mut all_hold_at_v = true;
    assert!(reason.len() <= MAX_REASON, "[HARNESS] reason longer than MAX_REASON");
    unroll!(i in [0, 1, 2, 3, 4] {
        if i < reason.len() {
            let p = reason[i];
            assert!(
                assignments.is_predicate_satisfied(p),
                "[O4] a fact of the reason does not hold in the state in which the reason is given"
            );
            if !holds_at(p, unsafe { &V }) {
                all_hold_at_v = false;
            }
        }
    });
    if let Some(p) = extra {
        assert!(
            assignments.is_predicate_satisfied(p),
            "[O4] the reification fact of the reason does not hold in the current state"
        );
        if !holds_at(p, unsafe { &V }) {
            all_hold_at_v = false;
        }
    }
    if unsafe { SEM_V } && all_hold_at_v {
        assert!(
            holds_at(propagated, unsafe { &V }),
            "[O3] explanation is not sufficient: an assignment satisfies the constraint and the reason but not the propagated fact"
        );
    }
}

pub(crate) fn tap(stored: &StoredReason, propagated: Predicate, assignments: &Assignments) {
    unsafe {
        PROPAGATIONS += 1;
    }
    match stored {
        StoredReason::Eager(conjunction) => {
            check_reason_slice(conjunction.as_slice(), None, propagated, assignments);
        }
        StoredReason::DynamicLazy(code) => {
            resolve_lazy(*code, None, propagated, assignments, true);
        }
        StoredReason::ReifiedLazy(literal, code) => {
            resolve_lazy(*code, Some(literal.get_true_predicate()), propagated, assignments, true);
        }
    }
}

fn resolve_lazy(code: u64, extra: Option<Predicate>, propagated: Predicate, assignments: &Assignments, record: bool) {
    unsafe {
        let propagator = PROPAGATOR.expect("[HARNESS] lazy reason but no propagator registered");
        let reason = (*propagator).lazy_explanation(code, ExplanationContext::from(assignments));
        LAZY_RESOLVED += 1;
        check_reason_slice(reason, extra, propagated, assignments);
        if record {
            assert!(NLAZY_SEEN < NLAZY, "[HARNESS] lazy reason log capacity exceeded");
            LAZY_CODE[NLAZY_SEEN] = code;
            LAZY_PRED[NLAZY_SEEN] = Some(propagated);
            LAZY_REIF[NLAZY_SEEN] = extra;
            NLAZY_SEEN += 1;
        }
    }
}

/// Re-evaluate every lazy reason of this step in the current (later) state: this is what
/// conflict analysis does.
pub(crate) fn recheck_lazy(assignments: &Assignments) {
    unroll!(i in [0, 1] {
        unsafe {
            if i < NLAZY_SEEN {
                if let Some(p) = LAZY_PRED[i] {
                    resolve_lazy(LAZY_CODE[i], LAZY_REIF[i], p, assignments, false);
                }
            }
        }
    });
}

/// O1 / O2 for the outcome of one call into the propagator.
pub(crate) fn check_outcome(status: &PropagationStatusCP, assignments: &Assignments) {
    match status {
        Ok(()) => {
            if unsafe { W_OK } {
                assert!(
                    w_in_domains(),
                    "[O1] propagation removed a value used by a solution of the constraint within the current domains"
                );
            }
        }
        Err(Inconsistency::EmptyDomain) => {
            assert!(
                !unsafe { W_OK },
                "[O2] a domain was emptied although the constraint has a solution within the domains"
            );
        }
        Err(Inconsistency::Conflict(nogood)) => {
            assert!(
                !unsafe { W_OK },
                "[O2] conflict reported although the constraint has a solution within the domains"
            );
            let mut all_hold_at_v = true;
            assert!(nogood.len() <= MAX_REASON, "[HARNESS] conflict longer than MAX_REASON");
            unroll!(i in [0, 1, 2, 3, 4] {
                if i < nogood.len() {
                    let p = nogood[i];
                    assert!(
                        assignments.is_predicate_satisfied(p),
                        "[O4] a fact of the conflict explanation does not hold in the current state"
                    );
                    if !holds_at(p, unsafe { &V }) {
                        all_hold_at_v = false;
                    }
                }
            });
            assert!(
                !(unsafe { SEM_V } && all_hold_at_v),
                "[O2] conflict explanation is not sufficient: an assignment satisfies the constraint and every fact of the explanation"
            );
        }
    }
}

/// Same for `initialise_at_root` (conflict = a bare conjunction).
pub(crate) fn check_init_outcome(
    status: &Result<(), crate::basic_types::PropositionalConjunction>,
    assignments: &Assignments,
) {
    match status {
        Ok(()) => {
            if unsafe { W_OK } {
                assert!(
                    w_in_domains(),
                    "[O1] initialisation removed a value used by a solution of the constraint"
                );
            }
        }
        Err(nogood) => {
            assert!(
                !unsafe { W_OK },
                "[O2] root conflict reported although the constraint has a solution within the domains"
            );
            let mut all_hold_at_v = true;
            assert!(nogood.len() <= MAX_REASON, "[HARNESS] conflict longer than MAX_REASON");
            unroll!(i in [0, 1, 2, 3, 4] {
                if i < nogood.len() {
                    let p = nogood[i];
                    assert!(
                        assignments.is_predicate_satisfied(p),
                        "[O4] a fact of the root conflict explanation does not hold in the current state"
                    );
                    if !holds_at(p, unsafe { &V }) {
                        all_hold_at_v = false;
                    }
                }
            });
            assert!(
                !(unsafe { SEM_V } && all_hold_at_v),
                "[O2] root conflict explanation is not sufficient"
            );
        }
    }
}

// ---------------------------------------------------------------------------------------------
// Stub twins (Kani only)
// ---------------------------------------------------------------------------------------------
#[cfg(kani)]
impl ReasonStore {
    /// The reason has already been checked by `tap`; the store itself (a heap trail) is cut.
    pub(crate) fn stub_push(&mut self, _propagator: PropagatorId, reason: StoredReason) -> ReasonRef {
        core::mem::forget(reason);
        ReasonRef(0)
    }
}

/// S3: registration. The real `register` / `register_for_backtrack_events` and the views'
/// event translation (`watch_all`) stay real, with two cuts: (a) the fixed-variable shortcut of
/// `register` is dropped (a fixed variable never produces an event, so watching it as well
/// changes nothing; the shortcut makes every registration conditional on symbolic state),
/// (b) `Watchers::{watch_all,watch_all_backtrack}` record (domain, event, local id) in a
/// fixed-size table instead of the `WatchListCP` heap vectors (measured: the real vectors make
/// CBMC's propositional reduction run out of memory). The harnesses dispatch `notify` through
/// that table exactly as the engine does through the watch list.
#[cfg(kani)]
pub(crate) mod watch_table {
    use super::*;
    use crate::engine::IntDomainEvent;

    /// [domain][event bit index] -> local id + 1 (0 = not watched)
    pub(crate) static mut FORWARD: [[u32; 4]; NV] = [[0; 4]; NV];
    pub(crate) static mut BACKWARD: [[u32; 4]; NV] = [[0; 4]; NV];

    pub(crate) const EVENTS: [IntDomainEvent; 4] = [
        IntDomainEvent::Assign,
        IntDomainEvent::LowerBound,
        IntDomainEvent::UpperBound,
        IntDomainEvent::Removal,
    ];

    pub(crate) fn record(
        table: &mut [[u32; 4]; NV],
        domain: usize,
        events: enumset::EnumSet<IntDomainEvent>,
        local_id: LocalId,
    ) {
        unroll!(e in [0, 1, 2, 3] {
            if events.contains(EVENTS[e]) {
                let slot = &mut table[domain][e];
                assert!(
                    *slot == 0 || *slot == local_id.unpack() + 1,
                    "[HARNESS] a variable is watched twice for one event kind"
                );
                *slot = local_id.unpack() + 1;
            }
        });
    }
}

#[cfg(kani)]
impl crate::engine::Watchers<'_> {
    pub(crate) fn stub_watch_all(
        &mut self,
        domain: crate::engine::variables::DomainId,
        events: enumset::EnumSet<crate::engine::IntDomainEvent>,
    ) {
        let local_id = self.verif_propagator_var().variable;
        unsafe {
            watch_table::record(&mut watch_table::FORWARD, domain.id as usize, events, local_id);
        }
    }

    pub(crate) fn stub_watch_all_backtrack(
        &mut self,
        domain: crate::engine::variables::DomainId,
        events: enumset::EnumSet<crate::engine::IntDomainEvent>,
    ) {
        let local_id = self.verif_propagator_var().variable;
        unsafe {
            watch_table::record(&mut watch_table::BACKWARD, domain.id as usize, events, local_id);
        }
    }
}

#[cfg(kani)]
impl PropagatorInitialisationContext<'_> {
    pub(crate) fn stub_register<Var: IntegerVariable>(
        &mut self,
        var: Var,
        domain_events: DomainEvents,
        local_id: LocalId,
    ) -> Var {
        let (watch_list, propagator, next_local_id) = self.verif_parts();
        *next_local_id = (*next_local_id).max(LocalId::from(local_id.unpack() + 1));
        let propagator_var = crate::engine::propagation::PropagatorVarId {
            propagator,
            variable: local_id,
        };
        let mut watchers = crate::engine::Watchers::new(propagator_var, watch_list);
        var.watch_all(&mut watchers, domain_events.get_int_events());
        var
    }
}

/// The local id under which `domain` is watched for `event` (forward or backtrack), as the
/// engine would find it in the watch list.
#[cfg(kani)]
pub(crate) fn watcher_of(
    _watch_list: &crate::engine::WatchListCP,
    event_index: usize,
    domain: usize,
    backtrack: bool,
) -> Option<LocalId> {
    let slot = unsafe {
        if backtrack {
            watch_table::BACKWARD[domain][event_index]
        } else {
            watch_table::FORWARD[domain][event_index]
        }
    };
    if slot == 0 {
        None
    } else {
        Some(LocalId::from(slot - 1))
    }
}

#[cfg(not(kani))]
pub(crate) fn watcher_of(
    watch_list: &crate::engine::WatchListCP,
    event_index: usize,
    domain: usize,
    backtrack: bool,
) -> Option<LocalId> {
    use crate::engine::IntDomainEvent;
    let event = [
        IntDomainEvent::Assign,
        IntDomainEvent::LowerBound,
        IntDomainEvent::UpperBound,
        IntDomainEvent::Removal,
    ][event_index];
    let domain = crate::engine::variables::DomainId::new(domain as u32);
    let watchers = if backtrack {
        watch_list.get_backtrack_affected_propagators(event, domain)
    } else {
        watch_list.get_affected_propagators(event, domain)
    };
    assert!(watchers.len() <= 1, "[REPLAY] a variable is watched twice for one event kind");
    watchers.first().map(|pv| pv.variable)
}
