// Kernel obligations on the arithmetic leaves of the views (K-view, K-round). These functions
// are the native replay targets of the E2 (MIR->SMT) queries, and double as Kani harnesses
// (differential check of the two engines on the same property).
#[cfg(not(kani))]
use super::kani;

use super::env::verif_harness;
use super::monitor;
use super::shadow;
use crate::engine::predicates::predicate::Predicate;
use crate::engine::variables::AffineView;
use crate::engine::variables::DomainId;
use crate::engine::variables::IntegerVariable;
use crate::math::num_ext::NumExt;
use crate::predicates::PredicateConstructor;

fn division_defined(a: i32, b: i32) -> bool {
    b != 0 && !(a == i32::MIN && b == -1)
}

verif_harness! {
    #[kani::unwind(4)]
    fn e2_div_floor() {
        let a: i32 = kani::any();
        let b: i32 = kani::any();
        kani::assume(division_defined(a, b));
        let q = <i32 as NumExt>::div_floor(a, b) as i128;
        let (a, b) = (a as i128, b as i128);
        let ok = if b > 0 { q * b <= a && a < q * b + b } else { q * b >= a && a > q * b + b };
        assert!(ok, "[K-round] div_floor is not the floor of a/b");
    }
}

verif_harness! {
    #[kani::unwind(4)]
    fn e2_div_ceil() {
        let a: i32 = kani::any();
        let b: i32 = kani::any();
        kani::assume(division_defined(a, b));
        let q = <i32 as NumExt>::div_ceil(a, b) as i128;
        let (a, b) = (a as i128, b as i128);
        let ok = if b > 0 { q * b - b < a && a <= q * b } else { q * b - b > a && a >= q * b };
        assert!(ok, "[K-round] div_ceil is not the ceiling of a/b");
    }
}

fn holds_for(p: Predicate, x: i32) -> bool {
    match p {
        Predicate::LowerBound { lower_bound, .. } => x >= lower_bound,
        Predicate::UpperBound { upper_bound, .. } => x <= upper_bound,
        Predicate::NotEqual { not_equal_constant, .. } => x != not_equal_constant,
        Predicate::Equal { equality_constant, .. } => x == equality_constant,
    }
}

/// Preconditions under which a view bound is well defined: a real scale, and `value - offset`
/// representable (the documented domain of `invert`).
fn view_inputs() -> (i32, i32, i32, i32) {
    let scale: i32 = kani::any();
    let offset: i32 = kani::any();
    let value: i32 = kani::any();
    let x: i32 = kani::any();
    kani::assume(scale != 0);
    let d = value as i64 - offset as i64;
    kani::assume(d >= i32::MIN as i64 && d <= i32::MAX as i64);
    kani::assume(!(d == i32::MIN as i64 && scale == -1));
    (scale, offset, value, x)
}

verif_harness! {
    #[kani::unwind(4)]
    fn e2_view_lower_bound_predicate() {
        let (scale, offset, value, x) = view_inputs();
        let view = AffineView::new(DomainId::new(1), scale, offset);
        let p = view.lower_bound_predicate(value);
        let image = scale as i128 * x as i128 + offset as i128;
        assert!(
            holds_for(p, x) == (image >= value as i128),
            "[K-view] [view >= value] does not select exactly the inner values whose image is >= value"
        );
    }
}

verif_harness! {
    #[kani::unwind(4)]
    fn e2_view_upper_bound_predicate() {
        let (scale, offset, value, x) = view_inputs();
        let view = AffineView::new(DomainId::new(1), scale, offset);
        let p = view.upper_bound_predicate(value);
        let image = scale as i128 * x as i128 + offset as i128;
        assert!(
            holds_for(p, x) == (image <= value as i128),
            "[K-view] [view <= value] does not select exactly the inner values whose image is <= value"
        );
    }
}

verif_harness! {
    #[kani::unwind(8)]
    fn e2_view_map() {
        // map is private; it is observed through lower_bound / upper_bound on a fixed domain.
        let scale: i32 = kani::any();
        let offset: i32 = kani::any();
        let x: i32 = kani::any();
        let image = scale as i128 * x as i128 + offset as i128;
        let product = scale as i128 * x as i128;
        kani::assume(image >= i32::MIN as i128 && image <= i32::MAX as i128);
        kani::assume(product >= i32::MIN as i128 && product <= i32::MAX as i128);
        shadow::init_range(1, x, x, 0);
        let view = AffineView::new(DomainId::new(1), scale, offset);
        let lb = view.lower_bound(shadow::assignments());
        let ub = view.upper_bound(shadow::assignments());
        assert!(
            lb as i128 == image && ub as i128 == image,
            "[K-view] the bounds of a view over a fixed variable are not scale*x+offset"
        );
    }
}
