// Obligations O1-O5, O7 for ReifiedPropagator<LinearLessOrEqual> and
// ReifiedPropagator<LinearNotEqual>: `r -> constraint` (half reification), reification literal
// free / true / false when posting, with changes, the cached inconsistency and backtracking
// (DESIGN.md §4 C09).
#[cfg(not(kani))]
use super::kani;

use super::env::all_fixed;
use super::env::at_lb;
use super::env::protocol;
use super::env::protocol_interrupted;
use super::env::verif_harness;
use super::env::verif_harness_real_trailed;
use super::env::Change;
use super::h_linear::Terms;
use super::monitor;
use super::shadow;
use super::shadow::unroll;
use crate::engine::propagation::Propagator;
use crate::engine::variables::DomainId;
use crate::engine::variables::Literal;
use crate::propagators::linear_less_or_equal::LinearLessOrEqualPropagator;
use crate::propagators::linear_not_equal::LinearNotEqualPropagator;
use crate::propagators::ReifiedPropagator;

fn domains(n: usize) {
    unroll!(i in [1, 2, 3] {
        if i <= n {
            shadow::init_any(i, 0);
        }
    });
    // the reification literal's 0-1 variable: free, true or false
    shadow::init_within(n + 1, 0, 1, 0);
}

/// `r -> inner`; the literal is "true" on a point iff its variable is >= 1.
fn sem_implied(n: usize, inner: &dyn Fn(fn(usize) -> i64) -> bool, at: fn(usize) -> i64) -> bool {
    !(at(n + 1) >= 1) || inner(at)
}

fn reified_leq(n: usize, changes: &[Change], backtrack_first: bool) {
    let terms = Terms::plain(n);
    let c: i32 = kani::any();
    monitor::pick_points(n + 1);
    let changes_owned: Vec<Change> = changes.to_vec();
    let inner = move |at: fn(usize) -> i64| terms.sum(at) <= c as i64;
    monitor::set_semantics(
        sem_implied(n, &inner, monitor::v),
        sem_implied(n, &inner, monitor::w),
    );
    let literal = Literal::new(DomainId::new((n + 1) as u32));
    let mut propagator =
        ReifiedPropagator::new(LinearLessOrEqualPropagator::new(terms.ids().into(), c), literal);
    let outcome = protocol(&mut propagator, n + 1, &changes_owned, backtrack_first, 2);
    if outcome.ok && !outcome.pending && all_fixed(n + 1) {
        assert!(
            sem_implied(n, &inner, at_lb),
            "[O5] every variable is fixed and `r -> c` is violated, but no conflict was reported"
        );
    }
    core::mem::forget(changes_owned);
    core::mem::forget(propagator);
}

fn reified_ne(n: usize, changes: &[Change], backtrack_first: bool) {
    let terms = Terms::plain(n);
    let rhs: i32 = kani::any();
    monitor::pick_points(n + 1);
    let changes_owned: Vec<Change> = changes.to_vec();
    let inner = move |at: fn(usize) -> i64| terms.sum(at) != rhs as i64;
    monitor::set_semantics(
        sem_implied(n, &inner, monitor::v),
        sem_implied(n, &inner, monitor::w),
    );
    let literal = Literal::new(DomainId::new((n + 1) as u32));
    let mut propagator =
        ReifiedPropagator::new(LinearNotEqualPropagator::new(terms.ids().into(), rhs), literal);
    let outcome = protocol(&mut propagator, n + 1, &changes_owned, backtrack_first, 2);
    if outcome.ok && !outcome.pending && all_fixed(n + 1) {
        assert!(
            sem_implied(n, &inner, at_lb),
            "[O5] every variable is fixed and `r -> c` is violated, but no conflict was reported"
        );
    }
    core::mem::forget(changes_owned);
    core::mem::forget(propagator);
}

verif_harness! {
    #[kani::unwind(4)]
    fn reified_leq_2_change() {
        domains(2);
        let changes = [Change::any(3)];
        reified_leq(2, &changes, false);
    }
}

verif_harness! {
    #[kani::unwind(4)]
    fn reified_leq_2_backtrack() {
        // change (may cache an inconsistency in `notify`), propagate, backtrack (the real
        // `synchronise` clears the cache), second change, propagate.
        domains(2);
        let changes = [Change::any(3), Change::any(3)];
        reified_leq(2, &changes, true);
    }
}

verif_harness! {
    #[kani::unwind(4)]
    fn reified_ne_2_changes() {
        domains(2);
        let changes = [Change::any(3), Change::any(3)];
        reified_ne(2, &changes, false);
    }
}

verif_harness_real_trailed! {
    #[kani::unwind(4)]
    fn reified_leq_1_change() {
        // r -> x1 <= c: the smallest instance with every mechanism of the wrapper (cached
        // inconsistency in notify, reification literal appended to reasons and conflicts)
        domains(1);
        let changes = [Change::any(2)];
        reified_leq(1, &changes, false);
    }
}

verif_harness! {
    #[kani::unwind(4)]
    fn reified_leq_1_backtrack() {
        domains(1);
        let changes = [Change::any(2), Change::any(2)];
        reified_leq(1, &changes, true);
    }
}

verif_harness! {
    #[kani::unwind(4)]
    fn reified_leq_1_interrupted() {
        // r -> x1 <= c: a change is notified (`notify` may cache an inconsistency and enqueue),
        // the engine backtracks before the propagator runs, a second change is notified and the
        // propagator runs: the cached inconsistency must be gone.
        domains(1);
        let terms = Terms::plain(1);
        let c: i32 = kani::any();
        monitor::pick_points(2);
        let first = Change::any(2);
        let second = Change::any(2);
        let inner = move |at: fn(usize) -> i64| terms.sum(at) <= c as i64;
        monitor::set_semantics(
            sem_implied(1, &inner, monitor::v),
            sem_implied(1, &inner, monitor::w),
        );
        let literal = Literal::new(DomainId::new(2));
        let mut propagator =
            ReifiedPropagator::new(LinearLessOrEqualPropagator::new(terms.ids().into(), c), literal);
        let outcome = protocol_interrupted(&mut propagator, 2, &first, &second);
        if outcome.ok && !outcome.pending && all_fixed(2) {
            assert!(
                sem_implied(1, &inner, at_lb),
                "[O5] every variable is fixed and `r -> c` is violated, but no conflict was reported"
            );
        }
        core::mem::forget(propagator);
    }
}
