// C08, obligation K-timetable: the time-table which the over-interval propagators build from
// the chronologically ordered events of the mandatory parts (`create_time_table_from_events`,
// reached through the hook `verif_time_table_from_events`; the events are built by the harness
// in the order which `create_events` documents - the std sort inside `create_events` is outside
// the claim, CBMC does not get through it) is the load of the mandatory parts: at every time point the
// height of the profile covering it equals the summed usage of the tasks whose mandatory part
// `[ub(s), lb(s) + duration)` covers it, profiles do not overlap, and a conflict is reported iff
// some time point is overloaded by mandatory parts (the conflict explanation is checked by the
// monitor: O2/O4). Start times range over negative and positive values.
#[cfg(not(kani))]
use super::kani;

use super::env::verif_harness;
use super::env::Env;
use super::monitor;
use super::shadow;
use super::shadow::unroll;
use crate::basic_types::Inconsistency;
use crate::basic_types::PropagationStatusCP;
use crate::engine::propagation::LocalId;
use crate::engine::variables::DomainId;
use std::rc::Rc;

use crate::propagators::verif_time_table_from_events;
use crate::propagators::CumulativeExplanationType;
use crate::propagators::CumulativeParameters;
use crate::propagators::CumulativePropagatorOptions;
use crate::propagators::Task;

const LO: i32 = -2;
const HI: i32 = 2;
const DMAX: i32 = 2;

struct Tasks {
    n: usize,
    duration: [i32; 4],
    usage: [i32; 4],
    capacity: i32,
}

/// "At every time point the running tasks use at most the capacity", evaluated on a point.
fn sem(tasks: &Tasks, at: fn(usize) -> i64) -> bool {
    let mut ok = true;
    // the time points LO ..= HI + DMAX - 1 (outside them nothing can run)
    unroll!(k in [0, 1, 2, 3, 4, 5] {
        let t = LO as i64 + k as i64;
        let mut load: i64 = 0;
        unroll!(i in [1, 2, 3] {
            if i <= tasks.n {
                let s = at(i);
                if s <= t && t < s + tasks.duration[i] as i64 {
                    load += tasks.usage[i] as i64;
                }
            }
        });
        if load > tasks.capacity as i64 {
            ok = false;
        }
    });
    ok
}

/// Load of the mandatory parts at time `t` in the current (shadow) domains.
fn mandatory_load(tasks: &Tasks, t: i32) -> i32 {
    let mut load = 0;
    unroll!(i in [1, 2, 3] {
        if i <= tasks.n && shadow::ub(i) <= t && t < shadow::lb(i) + tasks.duration[i] {
            load += tasks.usage[i];
        }
    });
    load
}

/// One comparator of the sorting network: afterwards slot `a` is not after slot `b` in the order
/// of `create_events`.
fn order(time: &mut [i32; 4], change: &mut [i32; 4], owner: &mut [usize; 4], a: usize, b: usize) {
    let a_first = if time[a] != time[b] {
        time[a] < time[b]
    } else if change[a].signum() != change[b].signum() {
        change[a] < change[b]
    } else {
        owner[a] <= owner[b]
    };
    if !a_first {
        time.swap(a, b);
        change.swap(a, b);
        owner.swap(a, b);
    }
}

fn time_table_over_interval(
    n: usize,
    explanation_type: CumulativeExplanationType,
    with_conflicts: bool,
) {
    let _ = shadow::assignments();
    let mut duration = [0i32; 4];
    let mut usage = [0i32; 4];
    unroll!(i in [1, 2, 3] {
        if i <= n {
            let d: i32 = kani::any();
            let u: i32 = kani::any();
            // `create_tasks` only keeps tasks with a positive duration and a positive usage
            kani::assume(d >= 1 && d <= DMAX && u >= 1 && u <= 4);
            duration[i] = d;
            usage[i] = u;
            shadow::init_within(i, LO, HI, 0);
        }
    });
    let capacity: i32 = kani::any();
    if with_conflicts {
        kani::assume(capacity >= 0 && capacity <= 6);
    } else {
        // no set of mandatory parts can overload the resource
        kani::assume(capacity >= 4 * n as i32 && capacity <= 8);
    }
    let tasks = Tasks { n, duration, usage, capacity };
    if with_conflicts {
        monitor::pick_points(n);
        monitor::set_semantics(sem(&tasks, monitor::v), sem(&tasks, monitor::w));
    }
    let mut all: Vec<Task<DomainId>> = Vec::with_capacity(3);
    unroll!(i in [1, 2, 3] {
        if i <= n {
            all.push(Task {
                start_variable: DomainId::new(i as u32),
                processing_time: duration[i],
                resource_usage: usage[i],
                id: LocalId::from((i - 1) as u32),
            });
        }
    });
    let parameters = CumulativeParameters::new(
        all,
        capacity,
        CumulativePropagatorOptions {
            allow_holes_in_domain: false,
            explanation_type,
            generate_sequence: false,
            incremental_backtracking: false,
        },
    );
    let env = Env::new();
    // The events of `create_events`: for every task with a mandatory part (ub < lb + duration) a
    // start event (ub, +usage) and an end event (lb + duration, -usage), ordered by time stamp,
    // ends before starts at the same time stamp, then by task id. Absent events sort last.
    let mut time = [i32::MAX; 4];
    let mut change = [0i32; 4];
    let mut owner = [0usize; 4];
    let mut count = 0;
    unroll!(i in [1, 2] {
        if i <= n {
            let lb = shadow::lb(i);
            let ub = shadow::ub(i);
            if ub < lb + duration[i] {
                time[2 * (i - 1)] = ub;
                change[2 * (i - 1)] = usage[i];
                time[2 * (i - 1) + 1] = lb + duration[i];
                change[2 * (i - 1) + 1] = -usage[i];
                count += 2;
            }
            owner[2 * (i - 1)] = i;
            owner[2 * (i - 1) + 1] = i;
        }
    });
    // sorting network for 4 keys
    if n >= 2 {
        // (the two events of one task are already in order)
        order(&mut time, &mut change, &mut owner, 0, 2);
        order(&mut time, &mut change, &mut owner, 1, 3);
        order(&mut time, &mut change, &mut owner, 1, 2);
    }
    let mut events: Vec<(i32, i32, Rc<Task<DomainId>>)> = Vec::with_capacity(4);
    unroll!(k in [0, 1, 2, 3] {
        if k < 2 * n && k < count {
            events.push((time[k], change[k], Rc::clone(&parameters.tasks[owner[k] - 1])));
        }
    });
    kani::cover!(count == 2 * n, "every task has a mandatory part");
    let result = verif_time_table_from_events(events, env.read_ctx(), &parameters);
    let mut overloaded = false;
    unroll!(k in [0, 1, 2, 3, 4, 5] {
        if mandatory_load(&tasks, LO + k as i32) > capacity {
            overloaded = true;
        }
    });
    match result {
        Ok(table) => {
            kani::cover!(table.len() >= n, "time-table with one profile per task");
            assert!(table.len() <= 2 * n - 1, "[K-timetable] more profiles than 2 * tasks - 1");
            unroll!(k in [0, 1, 2, 3, 4, 5] {
                let t = LO + k as i32;
                let mut height = 0;
                let mut covering = 0;
                unroll!(j in [0, 1, 2] {
                    if j < 2 * n - 1 && j < table.len() && table[j].start <= t && t <= table[j].end {
                        height += table[j].height;
                        covering += 1;
                    }
                });
                assert!(covering <= 1, "[K-timetable] two profiles of the time-table overlap");
                assert!(
                    height == mandatory_load(&tasks, t),
                    "[K-timetable] the height of the time-table at a time point differs from the load of the mandatory parts covering it"
                );
            });
            assert!(
                !overloaded,
                "[K-timetable] a time point is overloaded by mandatory parts but no conflict is reported"
            );
            core::mem::forget(table);
        }
        Err(nogood) => {
            if with_conflicts {
                kani::cover!(true, "overload reported");
            }
            assert!(
                overloaded,
                "[K-timetable] conflict reported although no time point is overloaded by mandatory parts"
            );
            if with_conflicts {
                let status: PropagationStatusCP = Err(Inconsistency::Conflict(nogood));
                monitor::check_outcome(&status, shadow::assignments());
                core::mem::forget(status);
            } else {
                core::mem::forget(nogood);
            }
        }
    }
    core::mem::forget(parameters);
    env.forget();
}

verif_harness! {
    #[kani::unwind(4)]
    fn time_table_from_events_1() {
        time_table_over_interval(1, CumulativeExplanationType::BigStep, false);
    }
}

verif_harness! {
    #[kani::unwind(6)]
    fn time_table_from_events_2() {
        time_table_over_interval(2, CumulativeExplanationType::BigStep, false);
    }
}

verif_harness! {
    #[kani::unwind(6)]
    fn time_table_from_events_2_conflicts() {
        time_table_over_interval(2, CumulativeExplanationType::BigStep, true);
    }
}
