// Obligations O1-O4, O7 for LinearLessOrEqualPropagator and LinearNotEqualPropagator
// (DESIGN.md §3). All symbolic inputs are drawn up-front in a fixed order so that a
// counterexample's concrete values can be decoded by position (layout strings in
// /verif/lib/registry.py).

#[cfg(not(kani))]
use super::kani;
use super::env::verif_harness;
use super::env::Env;
use super::monitor;
use super::shadow;
use super::shadow::unroll;
use super::env::all_fixed;
use super::env::at_lb;
use super::env::protocol;
use super::env::Change;
use crate::engine::propagation::Propagator;
use crate::engine::variables::AffineView;
use crate::engine::variables::DomainId;
use crate::engine::variables::IntegerVariable;
use crate::engine::variables::TransformableVariable;
use crate::engine::IntDomainEvent;
use crate::propagators::linear_less_or_equal::LinearLessOrEqualPropagator;
use crate::propagators::linear_not_equal::LinearNotEqualPropagator;

pub(crate) const MAXN: usize = 4;

/// A linear term `scale * x_i + offset` (scale 1 / offset 0 for a plain variable).
#[derive(Clone, Copy)]
pub(crate) struct Terms {
    pub(crate) n: usize,
    pub(crate) scale: [i32; MAXN + 1],
    pub(crate) offset: [i32; MAXN + 1],
}

impl Terms {
    pub(crate) fn plain(n: usize) -> Terms {
        Terms {
            n,
            scale: [1; MAXN + 1],
            offset: [0; MAXN + 1],
        }
    }

    pub(crate) fn sum(&self, at: fn(usize) -> i64) -> i64 {
        let mut sum: i64 = 0;
        unroll!(i in [1, 2, 3, 4] {
            if i <= self.n {
                sum += self.scale[i] as i64 * at(i) + self.offset[i] as i64;
            }
        });
        sum
    }

    /// Precondition on views: the image of the inner domain fits in an `i32` (a view is an
    /// `i32`-valued variable, so a view whose values do not fit is not a variable at all).
    pub(crate) fn assume_images_fit(&self) {
        unroll!(i in [1, 2, 3, 4] {
            if i <= self.n {
                let a = self.scale[i] as i64 * shadow::lb(i) as i64 + self.offset[i] as i64;
                let b = self.scale[i] as i64 * shadow::ub(i) as i64 + self.offset[i] as i64;
                kani::assume(a >= i32::MIN as i64 && a <= i32::MAX as i64);
                kani::assume(b >= i32::MIN as i64 && b <= i32::MAX as i64);
            }
        });
    }

    pub(crate) fn views(&self) -> Vec<AffineView<DomainId>> {
        (1..=self.n)
            .map(|i| AffineView::new(DomainId::new(i as u32), self.scale[i], self.offset[i]))
            .collect()
    }

    pub(crate) fn ids(&self) -> Vec<DomainId> {
        (1..=self.n).map(|i| DomainId::new(i as u32)).collect()
    }
}

fn domains(n: usize, holes: usize) {
    unroll!(i in [1, 2, 3, 4] {
        if i <= n {
            shadow::init_any(i, holes);
        }
    });
}

// ---------------------------------------------------------------------------------------------
// sum(x_i) <= c
// ---------------------------------------------------------------------------------------------
fn lin_leq<Var: IntegerVariable + 'static>(
    terms: Terms,
    vars: Vec<Var>,
    c: i32,
    changes: &[Change],
    backtrack_first: bool,
) {
    let n = terms.n;
    monitor::set_semantics(
        terms.sum(monitor::v) <= c as i64,
        terms.sum(monitor::w) <= c as i64,
    );
    let mut propagator = LinearLessOrEqualPropagator::new(vars.into(), c);
    // this propagator only changes upper bounds and listens to lower bounds: it is never
    // enqueued by its own propagations, one call per round is the whole fixed point
    let outcome = protocol(&mut propagator, n, changes, backtrack_first, 1);
    if outcome.ok && !outcome.pending && all_fixed(n) {
        assert!(
            terms.sum(at_lb) <= c as i64,
            "[O5] every variable is fixed and the constraint is violated, but no conflict was reported"
        );
    }
    core::mem::forget(propagator);
}

verif_harness! {
    #[kani::unwind(4)]
    fn lin_leq_ids_2() {
        let terms = Terms::plain(2);
        domains(2, 0);
        let c: i32 = kani::any();
        monitor::pick_points(2);
        lin_leq(terms, terms.ids(), c, &[], false);
    }
}

verif_harness! {
    #[kani::unwind(4)]
    fn lin_leq_ids_2_change() {
        let terms = Terms::plain(2);
        domains(2, 0);
        let c: i32 = kani::any();
        monitor::pick_points(2);
        let changes = [Change::any(2)];
        lin_leq(terms, terms.ids(), c, &changes, false);
    }
}

verif_harness! {
    #[kani::unwind(5)]
    fn lin_leq_ids_3() {
        let terms = Terms::plain(3);
        domains(3, 0);
        let c: i32 = kani::any();
        monitor::pick_points(3);
        lin_leq(terms, terms.ids(), c, &[], false);
    }
}

verif_harness! {
    #[kani::unwind(5)]
    fn lin_leq_ids_3_change() {
        let terms = Terms::plain(3);
        domains(3, 0);
        let c: i32 = kani::any();
        monitor::pick_points(3);
        let changes = [Change::any(3)];
        lin_leq(terms, terms.ids(), c, &changes, false);
    }
}

verif_harness! {
    #[kani::unwind(4)]
    fn lin_leq_ids_2_holes_change() {
        let terms = Terms::plain(2);
        domains(2, 1);
        let c: i32 = kani::any();
        monitor::pick_points(2);
        let changes = [Change::any(2)];
        lin_leq(terms, terms.ids(), c, &changes, false);
    }
}

fn view_terms(scales: [i32; 2]) -> Terms {
    let mut terms = Terms::plain(2);
    terms.scale[1] = scales[0];
    terms.scale[2] = scales[1];
    terms.offset[1] = kani::any();
    terms.offset[2] = kani::any();
    terms
}

verif_harness! {
    #[kani::unwind(4)]
    fn lin_leq_views_pos_neg_change() {
        domains(2, 0);
        let terms = view_terms([1, -1]);
        terms.assume_images_fit();
        let c: i32 = kani::any();
        monitor::pick_points(2);
        let changes = [Change::any(2)];
        lin_leq(terms, terms.views(), c, &changes, false);
    }
}

verif_harness! {
    #[kani::unwind(4)]
    fn lin_leq_views_2_m3() {
        domains(2, 1);
        let terms = view_terms([2, -3]);
        terms.assume_images_fit();
        let c: i32 = kani::any();
        monitor::pick_points(2);
        lin_leq(terms, terms.views(), c, &[], false);
    }
}

// ---------------------------------------------------------------------------------------------
// sum(x_i) != rhs
// ---------------------------------------------------------------------------------------------
//
// The propagator's incremental state (number of fixed terms, their sum, two flags) is only ever
// produced by its own `initialise_at_root` / `notify` / `notify_backtrack` / `propagate`, driven
// here by the engine's protocol: `notify(Assign)` for every term that becomes fixed, followed
// by `propagate` iff some `notify` returned `Enqueue`.
fn lin_ne<Var: IntegerVariable + 'static>(
    terms: Terms,
    vars: Vec<Var>,
    rhs: i32,
    changes: &[Change],
    backtrack_first: bool,
) {
    let n = terms.n;
    monitor::set_semantics(
        terms.sum(monitor::v) != rhs as i64,
        terms.sum(monitor::w) != rhs as i64,
    );
    let mut propagator = LinearNotEqualPropagator::new(vars.into(), rhs);
    let outcome = protocol(&mut propagator, n, changes, backtrack_first, 2);
    if outcome.ok && !outcome.pending && all_fixed(n) {
        assert!(
            terms.sum(at_lb) != rhs as i64,
            "[O5] every variable is fixed and the constraint is violated, but no conflict was reported"
        );
    }
    core::mem::forget(propagator);
}

verif_harness! {
    #[kani::unwind(4)]
    fn lin_ne_ids_2() {
        // (unregistered: one initial hole + a symbolic removal + the propagator's own removal
        // need three holes per variable, the store has two)
        let terms = Terms::plain(2);
        domains(2, 1);
        let rhs: i32 = kani::any();
        monitor::pick_points(2);
        let changes = [Change::any(2)];
        lin_ne(terms, terms.ids(), rhs, &changes, false);
    }
}

verif_harness! {
    #[kani::unwind(5)]
    fn lin_ne_ids_3() {
        let terms = Terms::plain(3);
        domains(3, 0);
        let rhs: i32 = kani::any();
        monitor::pick_points(3);
        let changes = [Change::any(3), Change::any(3)];
        lin_ne(terms, terms.ids(), rhs, &changes, false);
    }
}

verif_harness! {
    #[kani::unwind(4)]
    fn lin_ne_views_pos_neg() {
        domains(2, 0);
        let terms = view_terms([1, -1]);
        terms.assume_images_fit();
        let rhs: i32 = kani::any();
        monitor::pick_points(2);
        let changes = [Change::any(2), Change::any(2)];
        lin_ne(terms, terms.views(), rhs, &changes, false);
    }
}

verif_harness! {
    #[kani::unwind(4)]
    fn lin_ne_ids_2_backtrack() {
        // change, propagate, backtrack over it (real `synchronise` + `notify_backtrack`), second
        // change, propagate: the stale-counter hazard of the incremental state.
        let terms = Terms::plain(2);
        domains(2, 0);
        let rhs: i32 = kani::any();
        monitor::pick_points(2);
        let changes = [Change::any(2), Change::any(2)];
        lin_ne(terms, terms.ids(), rhs, &changes, true);
    }
}

verif_harness! {
    #[kani::unwind(4)]
    fn lin_leq_ids_2_backtrack() {
        let terms = Terms::plain(2);
        domains(2, 0);
        let c: i32 = kani::any();
        monitor::pick_points(2);
        let changes = [Change::any(2), Change::any(2)];
        lin_leq(terms, terms.ids(), c, &changes, true);
    }
}
