#!/bin/bash
# usage: run_seed.sh <seed-name> <property> <tier> [only-regex]
# Applies /verif/seeded/<seed-name>/patch.diff to /repo, runs the property's check, reverts.
name=$1; prop=$2; tier=${3:-quick}; only=$4
d=/verif/seeded/$name
cd /repo || exit 1
if ! git diff --quiet; then echo "/repo has uncommitted changes"; exit 3; fi
git apply $d/patch.diff || { echo "patch does not apply"; exit 3; }
cd /verif
if [ -n "$only" ]; then
  VERIF_TIER=$tier python3 bin/check $prop --tier $tier --only "$only" > $d/check_$prop_$tier.out 2>&1
else
  VERIF_TIER=$tier python3 bin/check $prop --tier $tier > $d/check_$prop_$tier.out 2>&1
fi
code=$?
cp evidence/$prop.json $d/evidence_with_patch_$prop.json 2>/dev/null
git -C /repo checkout -- .
echo "seed=$name property=$prop tier=$tier only=$only exit=$code" | tee -a $d/detection.log
grep -E "^VIOLATION|^INCONCLUSIVE|^BROKEN|^KNOWN|^property=" $d/check_$prop_$tier.out | tee -a $d/detection.log
exit $code
