#!/bin/bash
# usage: confirm_seed2.sh <ID e.g. C08> <seed-name>
# Confirms a seeded defect delivered by a sub-agent in /tmp/wt-<ID>/SEED (patch.diff, demo.rs, NOTES.md):
# the existing suite passes with the patch (except the baseline's always-failing cnf_test::prime4294967297),
# the demonstration fails with it and passes without it. Copies everything to /verif/seeded/<seed-name>/.
id=$1; name=$2
wt=/tmp/wt-$id; dst=/verif/seeded/$name
mkdir -p $dst
cp $wt/SEED/patch.diff $wt/SEED/demo.rs $wt/SEED/NOTES.md $dst/ 2>/dev/null
log=$dst/confirm.log; : > $log
cd $wt || exit 1
export CARGO_TARGET_DIR=$wt/target CARGO_NET_OFFLINE=true
git reset -q; git checkout -q -- . ; rm -f pumpkin-solver/tests/seed_demo.rs
cp $dst/demo.rs pumpkin-solver/tests/seed_demo.rs
echo "== demo without patch" >> $log
timeout 1500 cargo test --offline -p pumpkin-solver --test seed_demo > $dst/demo_without_patch.txt 2>&1; echo "demo_exit_without_patch=$?" >> $log
grep -E "^test result" $dst/demo_without_patch.txt >> $log
echo "== apply patch" >> $log
git apply $dst/patch.diff >> $log 2>&1 || { echo "PATCH DOES NOT APPLY" >> $log; exit 1; }
echo "== demo with patch" >> $log
timeout 1500 cargo test --offline -p pumpkin-solver --test seed_demo > $dst/demo_with_patch.txt 2>&1; echo "demo_exit_with_patch=$?" >> $log
grep -E "^test result" $dst/demo_with_patch.txt >> $log
rm -f pumpkin-solver/tests/seed_demo.rs
echo "== existing suite with patch" >> $log
timeout 3000 cargo test --offline --workspace --no-fail-fast -j 6 > $dst/suite_with_patch.txt 2>&1
grep -E "^test result" $dst/suite_with_patch.txt | sort | uniq -c >> $log
failed=$(grep -E "^test .* \.\.\. FAILED" $dst/suite_with_patch.txt | grep -v prime4294967297 | wc -l)
echo "unexpected_failures_with_patch=$failed" >> $log
git reset -q; git checkout -q -- .
echo "== done" >> $log
