#!/bin/bash
# usage: confirm_seed.sh <id-lowercase e.g. c16> <seed-name>
# Confirms a seeded defect in the agent's scratch worktree /tmp/wt_<id>: the existing suite passes
# with the patch, the demonstration fails with it and passes without it. Copies the result to
# /verif/seeded/<seed-name>/.
id=$1; name=$2
wt=/tmp/wt_$id; out=/tmp/out_$id; dst=/verif/seeded/$name
mkdir -p $dst
cp $out/patch.diff $out/demo.diff $dst/ 2>/dev/null
cp $out/meta.json $dst/meta.agent.json 2>/dev/null
log=$dst/confirm.log; : > $log
cd $wt || exit 1
git reset -q; git checkout -q -- . ; git clean -fdq -e target
echo "== apply patch" >> $log
git apply $dst/patch.diff >> $log 2>&1 || { echo "PATCH DOES NOT APPLY" >> $log; exit 1; }
echo "== existing suite with patch" >> $log
if [ ! -s $dst/suite_with_patch.txt ] || ! grep -q "test result" $dst/suite_with_patch.txt; then
CARGO_NET_OFFLINE=true cargo test --offline --workspace --no-fail-fast -j 8 > $dst/suite_with_patch.txt 2>&1
fi
grep -E "^test result|FAILED|failed" $dst/suite_with_patch.txt | sort | uniq -c >> $log
failed=$(grep -E "^test .* \.\.\. FAILED" $dst/suite_with_patch.txt | grep -v prime4294967297 | wc -l)
echo "unexpected_failures_with_patch=$failed" >> $log
demo_cmd=$(python3 -c "import json;print(json.load(open('$out/meta.json'))['demo_cmd'])")
# the demo command of the agents usually includes 'git apply demo.diff'; apply it ourselves
demo_cmd=$(echo "$demo_cmd" | sed -E 's#git( -C [^ ]+)? apply [^ ]*demo.diff( &&|;)?##g; s#cd /tmp/wt_[a-z0-9]+( &&|;)?##g')
echo "== demo with patch: $demo_cmd" >> $log
git apply $dst/demo.diff >> $log 2>&1 || echo "DEMO DOES NOT APPLY" >> $log
timeout 900 bash -c "$demo_cmd" > $dst/demo_with_patch.txt 2>&1; echo "demo_exit_with_patch=$?" >> $log
tail -5 $dst/demo_with_patch.txt >> $log
echo "== demo without patch" >> $log
git apply -R $dst/patch.diff >> $log 2>&1
timeout 900 bash -c "$demo_cmd" > $dst/demo_without_patch.txt 2>&1; echo "demo_exit_without_patch=$?" >> $log
tail -5 $dst/demo_without_patch.txt >> $log
git reset -q; git checkout -q -- . ; git clean -fdq -e target
echo "== done" >> $log
