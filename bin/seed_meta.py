#!/usr/bin/env python3
"""Write /verif/seeded/<name>/meta.json from the agent's meta and my confirmation log."""
import json, os, re, sys
root = '/verif/seeded'
for name in sorted(os.listdir(root)):
    d = os.path.join(root, name)
    if not os.path.isdir(d):
        continue
    agent = {}
    p = os.path.join(d, 'meta.agent.json')
    if os.path.exists(p):
        agent = json.load(open(p))
    log = open(os.path.join(d, 'confirm.log')).read() if os.path.exists(os.path.join(d, 'confirm.log')) else ''
    def grab(k):
        m = re.search(k + r'=(-?\d+)', log)
        return int(m.group(1)) if m else None
    old = {}
    mp = os.path.join(d, 'meta.json')
    if os.path.exists(mp):
        try: old = json.load(open(mp))
        except Exception: old = {}
    meta = {
        'property': agent.get('property', name.split('-')[0]),
        'breaks': agent.get('what') or agent.get('breaks'),
        'needs_to_manifest': agent.get('needs') or agent.get('needs_to_manifest'),
        'files_changed': agent.get('files_changed'),
        'origin': 'written by an independent sub-agent that saw only the property text and a scratch worktree of /repo (nothing from /verif)',
        'base_commit': old.get('base_commit') or agent.get('base_commit'),
        'demo_cmd': agent.get('demo_cmd'),
        'confirmed_by_me': {
            'how': 'bin/confirm_seed.sh in the scratch worktree: existing suite with the patch (cargo test --workspace --no-fail-fast), demonstration with the patch, demonstration without the patch',
            'unexpected_suite_failures_with_patch': grab('unexpected_failures_with_patch'),
            'demo_exit_with_patch': grab('demo_exit_with_patch'),
            'demo_exit_without_patch': grab('demo_exit_without_patch'),
        },
        'detection': old.get('detection', {}),
    }
    json.dump(meta, open(mp, 'w'), indent=1)
    print(name, meta['confirmed_by_me'])
