#!/bin/bash
# usage: kani1.sh <lane> <module::harness> [extra cargo-kani args]   (ad-hoc single run; the driver is bin/check)
lane=$1; h=$2; shift 2
n=${h##*::}
ulimit -v $((${KMEM:-20}*1024*1024))
cd /repo && PUMPKIN_VERIF_HARNESS=/verif/harness CARGO_NET_OFFLINE=true timeout ${KTIMEOUT:-1800} cargo kani -p pumpkin-solver --lib -Z stubbing -Z unstable-options --no-memory-safety-checks --no-overflow-checks --no-assertion-reach-checks --harness verif_kani::$h --exact --target-dir /verif/.kani-target/$lane "$@" > /tmp/k_$n.log 2>&1
