#!/bin/bash
# ad-hoc: kani_drcp.sh <lane> <module::harness>
lane=$1; h=$2; shift 2
n=${h##*::}
cd /repo && PUMPKIN_VERIF_HARNESS=/verif/harness CARGO_NET_OFFLINE=true timeout ${KTIMEOUT:-1800} cargo kani -p drcp-format --lib -Z stubbing -Z unstable-options --no-memory-safety-checks --no-overflow-checks --no-assertion-reach-checks --harness verif_kani::$h --exact --target-dir /verif/.kani-target/$lane "$@" > /tmp/kd_$n.log 2>&1
