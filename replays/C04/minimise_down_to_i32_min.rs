use pumpkin_solver::optimisation::linear_sat_unsat::LinearSatUnsat;
use pumpkin_solver::optimisation::OptimisationDirection;
use pumpkin_solver::results::OptimisationResult;
use pumpkin_solver::results::ProblemSolution;
use pumpkin_solver::results::SolutionReference;
use pumpkin_solver::termination::Indefinite;
use pumpkin_solver::DefaultBrancher;
use pumpkin_solver::Solver;

#[test]
fn minimise_down_to_i32_min() {
    let mut solver = Solver::default();
    let objective = solver.new_bounded_integer(i32::MIN, i32::MIN + 3);
    let mut termination = Indefinite;
    let mut brancher = solver.default_brancher();
    let callback: fn(&Solver, SolutionReference, &DefaultBrancher) = |_, _, _| {};
    let result = solver.optimise(
        &mut brancher,
        &mut termination,
        LinearSatUnsat::new(OptimisationDirection::Minimise, objective, callback),
    );
    match result {
        OptimisationResult::Optimal(s) => assert_eq!(s.get_integer_value(objective), i32::MIN),
        _ => panic!("expected an optimum"),
    }
}
