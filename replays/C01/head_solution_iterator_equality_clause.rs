use pumpkin_solver::predicate;
use pumpkin_solver::results::solution_iterator::IteratedSolution;
use pumpkin_solver::results::ProblemSolution;
use pumpkin_solver::termination::Indefinite;
use pumpkin_solver::Solver;

#[test]
fn iterate_equality_clause() {
    let mut solver = Solver::default();
    let x = solver.new_bounded_integer(0, 7);
    let y = solver.new_bounded_integer(0, 7);
    solver.add_clause([predicate!(x == 5), predicate!(y == 5)]).unwrap();
    let mut brancher = solver.default_brancher();
    let mut termination = Indefinite;
    let mut it = solver.get_solution_iterator(&mut brancher, &mut termination);
    let mut sols = vec![];
    loop {
        match it.next_solution() {
            IteratedSolution::Solution(s, _, _) => sols.push((s.get_integer_value(x), s.get_integer_value(y))),
            IteratedSolution::Finished => break,
            _ => panic!("unexpected"),
        }
    }
    println!("{sols:?}");
    for (a, b) in &sols {
        assert!(*a == 5 || *b == 5, "({a},{b}) violates the clause");
    }
    assert_eq!(sols.len(), 15);
}
